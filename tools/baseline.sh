#!/bin/bash
# Runs the repository's pinned suite (guard off) and compares the passing set with BASELINE.json stable_pass.
# usage: tools/baseline.sh [repo_dir]   -> exit 0 iff every stable_pass test passes
REPO=${1:-/repo}
OUT=$(mktemp -d)
cd "$REPO" || exit 2
env -u RESONAATE_VERIF /venv/bin/python -m pytest -ra -q -p no:cacheprovider --timeout=900 --continue-on-collection-errors --junitxml=$OUT/j.xml > $OUT/log 2>&1
/venv/bin/python - "$OUT/j.xml" <<'P'
import json, sys, xml.etree.ElementTree as ET
base = set(json.load(open('/root/.vp/BASELINE.json'))['stable_pass'])
passed = set()
for tc in ET.parse(sys.argv[1]).getroot().iter('testcase'):
    bad = any(c.tag in ('failure', 'error', 'skipped') for c in tc)
    if not bad:
        passed.add(f"{tc.get('classname')}::{tc.get('name')}")
missing = sorted(base - passed)
print(f"baseline stable_pass={len(base)} passed_now={len(passed)} missing={len(missing)}")
for m in missing[:40]:
    print("  MISSING", m)
sys.exit(1 if missing else 0)
P
rc=$?
tail -3 $OUT/log
rm -rf "$OUT"
exit $rc
