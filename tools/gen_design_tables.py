#!/venv/bin/python
"""Regenerates DESIGN.md section 7 from sensitivity.json and seeded/*/meta.json."""
import json
from pathlib import Path

ROOT = Path(__file__).resolve().parent.parent
sens = json.loads((ROOT / "sensitivity.json").read_text()) if (ROOT / "sensitivity.json").exists() else []
lines = ["## 7. Sensitivity results", "",
         "Produced by `tools/sensitivity.py`: each change is applied to `/repo`'s working tree, the *quick* check of the property is run",
         "(seed 1, 16 processes), `/repo` is restored.  *revert* = the corresponding `fix:` commit reverted, i.e. the original defect;",
         "*mutant* = a one-line change written for this purpose.  Time is wall-clock to the VIOLATION line including shrinking.", "",
         "| property | change | kind | result | s | first report |", "|---|---|---|---|---|---|"]
for e in sens:
    lines.append(f"| {e['property']} | {e['change']} | {e['kind']} | {e['result']} | {e.get('seconds', '')} | {e.get('first_report', '').replace('|', '/')[:160]} |")
nd = [e for e in sens if e["result"] == "not detected"]
lines += ["", f"{sum(1 for e in sens if e['result'] == 'VIOLATION')} of {len([e for e in sens if not e['result'].startswith('not applicable')])} applicable changes are reported.",
          "Not detected (and why): " + ("; ".join(f"{e['property']} '{e['change']}'" for e in nd) if nd else "none") + ".", ""]
seeds = []
for m in sorted((ROOT / "seeded").glob("*/meta.json")):
    seeds.append(json.loads(m.read_text()))
lines += ["### 7.1 Independently written breaking changes (`seeded/`)", "",
          "Six rounds of 20 (one per property and round: `seed-Cxx` ... `seed6-Cxx`) and a seventh of 8 (`seed7-Cxx`, the scenario-level properties C01 C03 C08 C09 C10 C11 C15 C19), written by fresh sub-agents that were given",
          "only the property text and a scratch worktree (nothing from `/verif`); later rounds were told what the earlier rounds had changed",
          "and asked for a different function and a different clause.  Each was confirmed here (demo passes on the unchanged tree, fails with",
          "the patch, repository tests of the touched area still pass) before being kept.  'caught by' = quick checks that report a VIOLATION",
          "with the patch applied.  Of the 128, the checks as they stood at the time reported 78; the others (history column) each led to an",
          "extension of a generator or an oracle, after which 127 are reported and one (seed4-C03) is explained as out of reach; one of the 127 (seed2-C18) was later made behaviour-neutral by repair S44 and is marked superseded.  Patches whose context was changed by a later repair of",
          "`/repo` were rebased with `git apply --3way` (original kept as `patch.orig.diff`).", "",
          "| seed | breaks | needs, in order to manifest | caught by (s) | not caught by | history |", "|---|---|---|---|---|---|"]
for m in seeds:
    res = m.get("checks_with_patch", {})
    lines.append(f"| {m['seed_id']} | {m['breaks_property']} | {m.get('needs_to_manifest', '')[:200]} | {', '.join(f"{k} ({v['seconds']:.0f})" for k, v in res.items() if v['caught']) or '-'} | {', '.join(k for k, v in res.items() if not v['caught']) or '-'} | {m.get('check_history', 'caught by the check as first built')} |")
lines += ["", "The patches are applied with `git -C /repo apply seeded/<id>/patch.diff` and undone with `git -C /repo checkout -- .`;",
          "`tools/seed_verify.py` repeats the whole confirmation in a scratch worktree.  Times include Hypothesis shrinking",
          "(scenario-level cases shrink slowly; the first failing case is found in a fraction of the stated time) and were measured",
          "with several verifications sharing the 16 cores."]
txt = "\n".join(lines) + "\n\n"
p = ROOT / "DESIGN.md"
s = p.read_text()
a, b = s.index("## 7. Sensitivity results"), s.index("## 8. False alarms corrected")
p.write_text(s[:a] + txt + s[b:])
print("section 7 regenerated:", len(sens), "sensitivity rows,", len(seeds), "seeds")
