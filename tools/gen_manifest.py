#!/venv/bin/python
"""Regenerates MANIFEST.json from the table below and validates it against the schema."""

import json
import sys
from pathlib import Path

ROOT = Path(__file__).resolve().parent.parent

LEVEL_NOTE_COMMON = (
    "Trusted base: CPython/NumPy/SciPy/SQLAlchemy as installed, Hypothesis 6.168 as the generator, the "
    "independent oracles under vf/oracles (each with a self-test run at start), and for scenario-level "
    "clauses the in-process Ray double (vf/raydouble.py). Exploration never shows absence of violations."
)

# property id -> (design section, technique, level text, extra note)
CHECKS = {
    "C05": (
        "4/C05",
        "exhaustive enumeration of whole seconds of chosen days + Hypothesis instants/offsets/durations vs datetime/Fraction oracle; timed runs of the real Scenario on an in-process Ray double",
        "Generated-input search with exact oracles (stdlib datetime, rational arithmetic). Every second of the "
        "enumerated days is checked (exhaustive within that finite bound), other clauses sample the 1901-2099 domain "
        "densely at second-of-minute != 0 and calendar boundaries. Right level: the property is a round-trip / "
        "arithmetic law over a huge but regular input space.",
        "",
    ),
    "C01": (
        "4/C01",
        "Hypothesis-generated event schedules run through the real Scenario on an in-process Ray double; delivery log vs integer reference model; closed-form Kepler reference for impulse effects",
        "Generated scenarios (start instant, step, 1-4 events of every kind, >=60% on step boundaries, two engines) are executed by the "
        "real Scenario.propagateTo; every handleEvent call is logged and compared with an exact reference model of which step and "
        "addressee each event belongs to; membership, time-bias activity, priority effect on rewards and impulse effect on the truth "
        "trajectory are checked after every step. Right level: the property quantifies over a large configuration space whose failing "
        "region (boundary-aligned times) is thin and is hit by construction.",
        "Truth dynamics restricted to two-body so that the closed-form solution is the reference for impulse effects.",
    ),
}

REASON_PENDING = "not claimed yet: generated-input check for this property is still under construction (see DESIGN.md section 10)"


def main():
    props = [json.loads(l) for l in (ROOT / "properties.jsonl").read_text().splitlines() if l.strip()]
    checks = []
    na = []
    for p in props:
        pid = p["id"]
        if pid in CHECKS:
            ref, tech, text, note = CHECKS[pid]
            checks.append({
                "property_id": pid,
                "quick_cmd": f"./check {pid} --tier quick",
                "thorough_cmd": f"./check {pid} --tier thorough",
                "evidence_file": f"/verif/evidence/{pid}.json",
                "replay_cmd_template": f"./check {pid} --replay {{path}}",
                "engine": "vf",
                "level_claimed": {"category": "exploration", "text": text, "design_ref": f"DESIGN.md section {ref}"},
                "level_note": (note + " " if note else "") + LEVEL_NOTE_COMMON,
                "technique": tech,
            })
        else:
            na.append({"property_id": pid, "reason": NA.get(pid, REASON_PENDING)})
    man = {
        "version": 1,
        "setup_cmd": "/venv/bin/python -c 'import hypothesis' 2>/dev/null || /venv/bin/pip install --no-index --find-links /opt/veriftools/wheels hypothesis",
        "hooks": {
            "guard": "RESONAATE_VERIF",
            "enable": "no hooks: checks import /repo/src directly (editable install + PYTHONPATH), nothing to build",
            "baseline_off_cmd": "cd /repo && /venv/bin/python -m pytest -ra -q -p no:cacheprovider --timeout=900 --continue-on-collection-errors",
            "source_commits": [],
            "add_only": True,
        },
        "engines": [{
            "name": "vf",
            "path": "/verif/vf",
            "serves_properties": sorted(CHECKS),
            "kind_free_text": "property-based testing: Hypothesis strategies / rule-based state machines, exhaustive enumeration of small finite domains, schedule and fault injection through an in-process Ray double; explicit independent oracles; shrunk counterexamples become replay files",
        }],
        "checks": checks,
        "not_applicable": na,
        "notes": "atheris and crosshair are not used (DESIGN.md section 6). known_findings.json lists known/fixed findings. Seeded breakages and which check catches them: seeded/ and DESIGN.md section 7.",
    }
    out = ROOT / "MANIFEST.json"
    out.write_text(json.dumps(man, indent=1) + "\n")
    import jsonschema

    schema = json.loads(Path("/root/.vp/MANIFEST.schema.json").read_text())
    jsonschema.validate(man, schema)
    print(f"MANIFEST.json: {len(checks)} checks, {len(na)} not_applicable; valid")


NA: dict = {}

if __name__ == "__main__":
    sys.exit(main())
