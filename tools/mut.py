#!/venv/bin/python
"""usage: tools/mut.py <repo-relative file> <old> <new> -- <command...>
Applies a one-off textual mutation to /repo (must match exactly once), runs the command from /verif with evidence
writing disabled and replays written to a scratch dir, then restores the file. Exit code = command's."""
import os, subprocess, sys, tempfile, shutil
args = sys.argv[1:]
i = args.index("--")
f, old, new = args[:i]
cmd = args[i + 1:]
path = os.path.join("/repo", f)
src = open(path).read()
if src.count(old) != 1:
    print(f"mutation target matches {src.count(old)} times"); sys.exit(3)
if subprocess.run(["git", "-C", "/repo", "status", "--porcelain", "--untracked-files=no"], capture_output=True, text=True).stdout.strip():
    print("refusing: /repo dirty"); sys.exit(3)
open(path, "w").write(src.replace(old, new))
env = dict(os.environ, VF_NO_EVIDENCE="1", VF_REPLAY_DIR=tempfile.mkdtemp(prefix="vfmut-"))
try:
    rc = subprocess.run(cmd, cwd="/verif", env=env).returncode
finally:
    open(path, "w").write(src)
    shutil.rmtree(env["VF_REPLAY_DIR"], ignore_errors=True)
sys.exit(rc)
