#!/venv/bin/python
"""Verify and register an independently written breaking change.

usage: tools/seed_verify.py <seed-id> <property> <out-dir-with patch.diff+demo.py+notes.md> [--tests "tests/a tests/b"] [--checks "Cxx Cyy"]

Steps (all in a scratch worktree of /repo's HEAD under /tmp, removed afterwards):
  1. demo.py exits 0 on the unchanged tree;
  2. the patch applies; demo.py exits 1 with it; the listed repository tests still pass with it
     (known always-failing tests ignored);
  3. the quick checks listed (default: the property's own) are run with the patch applied; result recorded;
  4. /verif/seeded/<seed-id>/{patch.diff, demo.py, notes.md, meta.json} written.
"""

import argparse
import json
import os
import shutil
import subprocess
import sys
import tempfile
import time
from pathlib import Path

ROOT = Path(__file__).resolve().parent.parent
REPO = "/repo"
IGNORE = ("testEntryPoint", "testModuleCommand", "TestInformationMetric::testCalculateMetric", "testRemoteData", "tests/common/test_config.py")


def sh(cmd, **kw):
    return subprocess.run(cmd, shell=True, capture_output=True, text=True, **kw)


def main():
    ap = argparse.ArgumentParser()
    ap.add_argument("seed_id")
    ap.add_argument("prop")
    ap.add_argument("out")
    ap.add_argument("--tests", default="")
    ap.add_argument("--checks", default="")
    ap.add_argument("--needs", default="")
    a = ap.parse_args()
    out = Path(a.out).resolve()
    patch = out / "patch.diff"
    demo = out / "demo.py"
    global REPO
    wt = tempfile.mkdtemp(prefix="vfseed-wt-")
    os.rmdir(wt)
    r = sh(f"git -C /repo worktree add --detach {wt} HEAD")
    assert r.returncode == 0, r.stderr
    REPO = wt
    try:
        return _run(a, out, patch, demo)
    finally:
        sh(f"git -C /repo worktree remove --force {wt}")
        shutil.rmtree(wt, ignore_errors=True)


def _run(a, out, patch, demo):
    pins = []
    old = ROOT / "seeded" / a.seed_id / "meta.json"
    if old.exists():  # re-verification of a kept seed: keep its description unless given anew
        o = json.loads(old.read_text())
        a.needs = a.needs or o.get("needs_to_manifest", "")
        a.tests = a.tests or o.get("repo_tests_with_patch", {}).get("selection", "")
        a.checks = a.checks or " ".join(o.get("checks_with_patch", {}))
        keep_history = o.get("check_history")
    else:
        keep_history = None
    meta = {"seed_id": a.seed_id, "breaks_property": a.prop, "needs_to_manifest": a.needs, "ran": [], "verified_at_repo_commit": sh(f"git -C {REPO} rev-parse --short HEAD").stdout.strip()}
    env = dict(os.environ, PYTHONPATH=f"{REPO}/src")

    def run_demo():
        r = subprocess.run(["/venv/bin/python", "-W", "ignore", str(demo)], cwd=REPO, env=env, capture_output=True, text=True, timeout=1800)
        return r.returncode, (r.stdout + r.stderr)[-600:]

    rc0, o0 = run_demo()
    meta["demo_on_unchanged_tree"] = rc0
    meta["ran"].append(f"demo.py on unchanged tree -> exit {rc0}")
    ok = rc0 == 0
    r = sh(f"git -C {REPO} apply --check {patch}")
    if r.returncode != 0:
        meta["patch_applies"] = False
        meta["ran"].append("git apply --check failed: " + r.stderr[-300:])
        ok = False
    else:
        meta["patch_applies"] = True
        sh(f"git -C {REPO} apply {patch}")
        try:
            rc1, o1 = run_demo()
            meta["demo_with_patch"] = rc1
            meta["demo_output_with_patch"] = o1[-400:]
            meta["ran"].append(f"demo.py with patch -> exit {rc1}")
            ok = ok and rc1 != 0
            if a.tests:
                t0 = time.time()
                r = sh(f"cd {REPO} && PYTHONPATH={REPO}/src /venv/bin/python -m pytest -q -p no:cacheprovider {a.tests} 2>&1 | tail -15")
                failed = [l for l in r.stdout.splitlines() if l.startswith("FAILED") or l.startswith("ERROR")]
                real = [l for l in failed if not any(k in l for k in IGNORE)]
                meta["repo_tests_with_patch"] = {"selection": a.tests, "failures_not_in_baseline": real, "seconds": round(time.time() - t0)}
                meta["ran"].append(f"pytest {a.tests} with patch -> {len(real)} new failures")
                ok = ok and not real
            results = {}
            for chk in (a.checks.split() or [a.prop]):
                envc = dict(os.environ, VF_NO_EVIDENCE="1", VF_REPO_SRC=f"{REPO}/src", VF_REPLAY_DIR=tempfile.mkdtemp(prefix="vfseed-"))
                t0 = time.time()
                r = subprocess.run(["./check", chk, "--tier", "quick"], cwd=str(ROOT), env=envc, capture_output=True, text=True)
                lines = [l.strip()[:300] for l in r.stdout.splitlines() if "clause=" in l]
                results[chk] = {"exit": r.returncode, "caught": r.returncode == 1 and "VIOLATION property=" in r.stdout, "seconds": round(time.time() - t0, 1),
                                "first_report": lines[0] if lines else ""}
                found = sorted(Path(envc["VF_REPLAY_DIR"]).glob(f"{chk}/*.json"))
                if found and results[chk]["caught"]:
                    pins.append((chk, found[0].read_text()))
                shutil.rmtree(envc["VF_REPLAY_DIR"], ignore_errors=True)
                meta["ran"].append(f"./check {chk} --tier quick with patch -> exit {r.returncode}")
            meta["checks_with_patch"] = results
        finally:
            sh(f"git -C {REPO} checkout -- .")
    meta["kept"] = bool(ok)
    if keep_history:
        meta["check_history"] = keep_history
    dest = ROOT / "seeded" / a.seed_id
    if ok:
        dest.mkdir(parents=True, exist_ok=True)
        if out.resolve() != dest.resolve():
            shutil.copy(patch, dest / "patch.diff")
            shutil.copy(demo, dest / "demo.py")
            if (out / "notes.md").exists():
                shutil.copy(out / "notes.md", dest / "notes.md")
        # the shrunk counterexample becomes a pinned replay: it holds on the unchanged tree and fails in seconds if this breakage returns
        for chk, text in pins:
            pin = ROOT / "replays" / chk / f"pin-{a.seed_id}.json"
            pin.parent.mkdir(parents=True, exist_ok=True)
            pin.write_text(text)
            r = subprocess.run(["./check", chk, "--replay", str(pin), "--no-evidence"], cwd=str(ROOT), capture_output=True, text=True)
            meta.setdefault("pinned_replays", {})[chk] = {"file": str(pin.relative_to(ROOT)), "exit_on_unchanged_tree": r.returncode}
            if r.returncode != 0:
                pin.unlink()
        (dest / "meta.json").write_text(json.dumps(meta, indent=1))
    print(json.dumps(meta, indent=1))
    return 0 if ok else 1


if __name__ == "__main__":
    sys.exit(main())
