#!/venv/bin/python
"""Sensitivity (mutation) protocol: applies each listed change to /repo's working tree, runs the quick check of the property it
should break, restores /repo, and records whether (and how fast) the check reported a VIOLATION.

Two kinds of changes: textual mutants (file, old, new) and reverts of the "fix:" commits (re-introducing the original defect).
Results go to /verif/sensitivity.json (input of DESIGN.md section 7).  usage: tools/sensitivity.py [Cxx ...]
"""

import json
import os
import subprocess
import sys
import tempfile
import time
from pathlib import Path

ROOT = Path(__file__).resolve().parent.parent
REPO = "/repo"

M = []  # (property, name, kind, spec)


def mut(prop, name, file, old, new):
    M.append((prop, name, "mutant", (file, old, new)))


def rev(prop, name, commit):
    M.append((prop, name, "revert", commit))


# ---- reverts of fix commits (original defects) ---------------------------------------------------------------------
rev("C05", "S1 julianDateToDatetime truncation", "b211f9b")
rev("C11", "S1 julianDateToDatetime truncation", "b211f9b")
rev("C01", "S2 step windows from accumulated JD", "e0e78d1")
rev("C01", "S3 discarded query.filter", "1377c2a")
rev("C01", "S15 priority overwritten", "b6223f2")
rev("C12", "S7 retrograde equatorial elements", "020658d")
rev("C04", "S4 skewSymmetric row", "HEAD:skew")
rev("C14", "S8 rectangular FoV seam", "6d5bfbe")
rev("C14", "S19 sun fraction > 1", "c48694e")
rev("C14", "S20 sun fraction NaN on axis", "4aace1a")
rev("C06", "S5 UKF resample residuals", "c15bf90")
rev("C20", "S12 checkSinglePass 3-vector", "057131f")
rev("C15", "S14 TwoBody ignores thrust", "35a1bda")
rev("C15", "S9 burn end not detected", "40f57fe")
rev("C08", "S6c n^2 miss records", "37e3b80")
rev("C08", "S6b misses never reset", "f1a1086")
rev("C08", "S6d completion-order processing", "ebabb1a")
rev("C08", "S21 duplicate observations", "dda31ad")
rev("C08", "S22 observed and missed", "69a4c9a")
rev("C19", "S11b sensor_agent.measurement", "HEAD:attach")
rev("C19", "S11 count comparison", "HEAD:importer")

# ---- textual mutants ------------------------------------------------------------------------------------------------------
# (the three reverts above that no longer apply cleanly, re-introduced on today's code)
mut("C01", "S16 applied impulses keep being watched", "src/resonaate/dynamics/celestial.py", "            if not (isinstance(event, ScheduledImpulse) and any(event is done for done in applied))", "            if True")
mut("C01", "S6a sensor_changes never reset", "src/resonaate/tasking/engine/centralized_engine.py", "        self.sensor_changes = {}\n        self.visibility_matrix", "        self.visibility_matrix")
mut("C08", "S6a sensor_changes reset per job", "src/resonaate/tasking/engine/engine_base.py", "        for sensor_info in sensor_info_list:\n            self.sensor_changes[", "        self.sensor_changes = {}\n        for sensor_info in sensor_info_list:\n            self.sensor_changes[")
mut("C01", "event window lower bound >=", "src/resonaate/data/events/__init__.py", "        event_alias.end_time_jd > julian_date_lb,", "        event_alias.end_time_jd >= julian_date_lb,")
mut("C01", "impulse queue never pruned", "src/resonaate/agents/agent_base.py", "            elif self._time < itr_event.time and not fpe_equals(itr_event.time, self._time):", "            elif True:")
mut("C02", "slew check dropped", "src/resonaate/sensors/sensor_base.py", "        if self.canSlew(pointing_sez):", "        if True or self.canSlew(pointing_sez):")
mut("C02", "wrap-north az mask and/or", "src/resonaate/sensors/sensor_base.py", "            azimuth >= self.az_mask[0] or azimuth <= self.az_mask[1]\n", "            azimuth >= self.az_mask[0] and azimuth <= self.az_mask[1]\n")
mut("C02", "radar range in metres", "src/resonaate/sensors/radar.py", "        return rcs**0.25 * self.max_range_aux", "        return rcs**0.25 * self.max_range_aux * 1000.0")
mut("C02", "limiting magnitude inverted", "src/resonaate/sensors/optical.py", "        if rso_apparent_vismag > self.detectable_vismag:", "        if rso_apparent_vismag < self.detectable_vismag:")
mut("C02", "elevation off by 1e-5 rad", "src/resonaate/physics/measurements.py", "    return arcsin(slant_range_sez[2] / norm(slant_range_sez[:3]))", "    return arcsin(slant_range_sez[2] / norm(slant_range_sez[:3])) + 1e-5")
mut("C02", "max range check dropped", "src/resonaate/sensors/sensor_base.py", "        if self.maximum_range is not None and getRange(slant_range_sez) > self.maximum_range:", "        if False and getRange(slant_range_sez) > self.maximum_range:")
mut("C03", "batch stride slip", "src/resonaate/dynamics/two_body.py", "            r_vector = state[jj : jj + half : step]", "            r_vector = state[(jj + 1) % step : (jj + 1) % step + half : step]")
mut("C03", "epoch sign", "src/resonaate/dynamics/special_perturbations.py", "        julian_date = JulianDate(self.init_julian_date + time / 86400)", "        julian_date = JulianDate(self.init_julian_date - time / 86400)")
mut("C04", "elapsed days off by one", "src/resonaate/physics/transforms/reductions.py", "            seconds + delta_ut1,\n        )\n        - 1\n    )", "            seconds + delta_ut1,\n        )\n    )")
mut("C04", "sez2ecef transposed", "src/resonaate/physics/transforms/methods.py", "    sez_2_ecef_rotation = matmul(rot3(-lon), rot2(lat - const.PI / 2))", "    sez_2_ecef_rotation = matmul(rot3(-lon), rot2(lat - const.PI / 2)).T")
mut("C04", "leap year rule", "src/resonaate/physics/time/conversions.py", "    if remainder(year, 4) == 0:", "    if remainder(year, 4) == 1:")
mut("C05", "propagateTo floors the delta", "src/resonaate/scenario/scenario.py", "        rounded_delta = around(target_scenario_time - self.clock.time)", "        rounded_delta = around(target_scenario_time - self.clock.time - 0.5)")
mut("C05", "days2mdh rounds the day", "src/resonaate/physics/time/stardate.py", "    day_of_year_int = floor(day_of_year)", "    day_of_year_int = floor(day_of_year + 1e-6)")
mut("C06", "P+ = P- - K S", "src/resonaate/estimation/kalman/unscented_kalman_filter.py", "        self.est_p = self.pred_p - self.kalman_gain.dot(self.innov_cvr.dot(self.kalman_gain.T))", "        self.est_p = self.pred_p - self.kalman_gain.dot(self.innov_cvr)[:, :1].dot(self.kalman_gain.T[:1, :])")
mut("C06", "gain scaled", "src/resonaate/estimation/kalman/unscented_kalman_filter.py", "            self.est_x = self.pred_x + self.kalman_gain.dot(self.innovation)", "            self.est_x = self.pred_x + self.kalman_gain.dot(self.innovation) * 0.999")
mut("C07", "assignment minimises", "src/resonaate/tasking/decisions/decisions.py", "linear_sum_assignment(reward_matrix, maximize=True)", "linear_sum_assignment(reward_matrix, maximize=False)")
mut("C07", "decision OR visibility", "src/resonaate/tasking/decisions/decision_base.py", "        return decision_matrix & visibility_matrix", "        return decision_matrix | visibility_matrix")
mut("C07", "normalise only above one", "src/resonaate/tasking/rewards/reward_base.py", "            if metric_matrix[..., met].max() > 0.0:", "            if metric_matrix[..., met].max() > 1.0:")
mut("C07", "greedy argmax over first row", "src/resonaate/tasking/decisions/decisions.py", "            tgt_ind = argmax(reward_matrix[:, sen_ind])", "            tgt_ind = argmax(reward_matrix[:, 0])")
mut("C09", "extra save at step 2", "src/resonaate/scenario/scenario.py", "                if self.clock.time % self.output_time_step == 0:", "                if self.clock.time % self.output_time_step == 0 or self.clock.time == 2 * self.physics_time_step:")
mut("C09", "commit per object", "src/resonaate/data/data_interface.py", "        with self._getSessionScope() as session:\n            session.bulk_save_objects(data)\n            return len(data)", "        for item in data:\n            with self._getSessionScope() as session:\n                session.bulk_save_objects([item])\n        return len(data)")
mut("C09", "estimate row epoch off", "src/resonaate/agents/estimate_agent.py", "            julian_date=self.julian_date_epoch,\n            source=self.nominal_filter.source,", "            julian_date=self.julian_date_epoch + 1e-7,\n            source=self.nominal_filter.source,")
mut("C10", "truth nudged when estimating", "src/resonaate/scenario/scenario.py", "            self.logger.debug(\"Put agent updates...\")", "            for _t in self.target_agents.values():\n                _t.eci_state = _t.eci_state * (1.0 + 2e-16)\n            self.logger.debug(\"Put agent updates...\")")
mut("C11", "terrestrial uses initial time", "src/resonaate/dynamics/terrestrial.py", "        final_datetime = self.datetime_start + timedelta(seconds=final_time)", "        final_datetime = self.datetime_start + timedelta(seconds=initial_time)")
mut("C12", "quadrant check sign", "src/resonaate/physics/orbits/__init__.py", "    if check < 0.0:", "    if check > 0.0:")
mut("C12", "coe2eqe drops retro factor", "src/resonaate/physics/orbits/conversions.py", "    h = ecc * sin(argp + II * raan)", "    h = ecc * sin(argp + raan)")
mut("C13", "Cunningham factor", "src/resonaate/physics/bodies/gravitational_potential.py", "                fact_term = (n - m + 1) * (n - m + 2)", "                fact_term = (n - m + 1) * (n - m + 1)")
mut("C13", "third body in ECEF", "src/resonaate/dynamics/special_perturbations.py", "                    body.mu * _getThirdBodyAcceleration(r_eci, position)", "                    body.mu * _getThirdBodyAcceleration(r_ecef, position)")
mut("C13", "elapsed seconds truncated", "src/resonaate/dynamics/special_perturbations.py", "        julian_date = JulianDate(self.init_julian_date + time / 86400)", "        julian_date = JulianDate(self.init_julian_date + int(time) / 86400)")
mut("C13", "SRP ignores eclipse", "src/resonaate/dynamics/special_perturbations.py", "        return a_srp * calculateSunVizFraction(sat_position, sun_eci_position) / 1000.0", "        return a_srp / 1000.0")
mut("C14", "line of sight tau and/or", "src/resonaate/physics/sensor_utils.py", "    if tau < 0.0 or tau > 1.0:", "    if tau < 0.0 and tau > 1.0:")
mut("C14", "conic FoV uses full angle", "src/resonaate/sensors/field_of_view.py", "        return angle <= self.cone_angle / 2", "        return angle <= self.cone_angle")
mut("C16", "linear mean for angles", "src/resonaate/estimation/kalman/unscented_kalman_filter.py", "                mean = angularMean(meas, weights=self.mean_weight, low=low, high=high)", "                mean = meas.dot(self.mean_weight)")
mut("C16", "residual not wrapped", "src/resonaate/physics/maths.py", "    return wrapAngleNegPiPi(wrapAngle2Pi(val1) - wrapAngle2Pi(val2)) if angular else val1 - val2", "    return (wrapAngle2Pi(val1) - wrapAngle2Pi(val2)) if angular else val1 - val2")
mut("C17", "window one too long", "src/resonaate/estimation/maneuver_detection.py", "        self.nis_list = deque(maxlen=window_size)", "        self.nis_list = deque(maxlen=window_size + 1)")
mut("C17", "fading dof from current dim", "src/resonaate/estimation/maneuver_detection.py", "        dof = avg_dim * (1 + self.delta) / (1 - self.delta)", "        dof = dim * (1 + self.delta) / (1 - self.delta)")
mut("C17", "fading scale (1-delta)", "src/resonaate/estimation/maneuver_detection.py", "        self.metric = self.prior_nis * (1 + self.delta)", "        self.metric = self.prior_nis * (1 - self.delta)")
mut("C18", "prune without renormalising", "src/resonaate/estimation/adaptive/adaptive_filter.py", "        self.model_weights = self.model_weights / np_sum(self.model_weights)\n        self._compileUpdateStep(observations)", "        self._compileUpdateStep(observations)")
mut("C18", "mixture covariance without spread", "src/resonaate/estimation/adaptive/adaptive_filter.py", "            self.est_p += weight * (model.est_p + outer(x_diff_est, x_diff_est))\n\n        if observations:\n            self.true_y", "            self.est_p += weight * (model.est_p)\n\n        if observations:\n            self.true_y")
mut("C18", "prior dropped from Bayes", "src/resonaate/estimation/adaptive/smm.py", "                self.model_weights[num] = self.model_weights[num] * self.model_likelihoods[num]", "                self.model_weights[num] = self.model_likelihoods[num]")
mut("C19", "imported state not applied for odd ids", "src/resonaate/agents/target_agent.py", "        self.eci_state = array(ephemeris.eci)\n", "        self.eci_state = array(ephemeris.eci) if self.simulation_id % 2 else self.eci_state\n")
mut("C20", "Battin ignores transfer sense", "src/resonaate/physics/orbit_determination/lambert.py", "    sin_delta_nu = transfer_method * norm(cross(current_position, initial_position)) / (r1 * r2)", "    sin_delta_nu = norm(cross(current_position, initial_position)) / (r1 * r2)")
mut("C20", "geocentric latitude in inversion", "src/resonaate/physics/transforms/methods.py", "    sensor_lla = ecef2lla(sensor_ecef)\n\n    eci_relative_pos", "    sensor_lla = ecef2lla(sensor_ecef)\n    sensor_lla[0] = geodetic2geocentric(sensor_lla[0])\n\n    eci_relative_pos")


def sh(*cmd, **kw):
    return subprocess.run(cmd, capture_output=True, text=True, **kw)


def clean():
    return not sh("git", "-C", REPO, "status", "--porcelain", "--untracked-files=no").stdout.strip()


def resolve(commit):
    if not commit.startswith("HEAD:"):
        return commit
    key = {"skew": "skewSymmetric", "attach": "imported observations crashed", "importer": "registered agent without an imported ephemeris"}[commit[5:]]
    out = sh("git", "-C", REPO, "log", "--format=%h %s").stdout.splitlines()
    return [l.split()[0] for l in out if key in l][0]


def main():
    """usage: sensitivity.py [Cxx ...] [--name substring]   (runs in a scratch worktree of /repo's HEAD, never in /repo itself)"""
    global REPO
    args = sys.argv[1:]
    name_filter = None
    if "--name" in args:
        i = args.index("--name")
        name_filter = args[i + 1]
        del args[i:i + 2]
    only = {a.upper() for a in args}
    outp = ROOT / "sensitivity.json"
    results = json.loads(outp.read_text()) if outp.exists() else []
    wt = tempfile.mkdtemp(prefix="vfsens-wt-")
    os.rmdir(wt)
    r = sh("git", "-C", "/repo", "worktree", "add", "--detach", wt, "HEAD")
    assert r.returncode == 0, r.stderr
    REPO = wt
    try:
        return _run(only, name_filter, results, outp)
    finally:
        sh("git", "-C", "/repo", "worktree", "remove", "--force", wt)
        subprocess.run(["rm", "-rf", wt])


def _run(only, name_filter, results, outp):
    for prop, name, kind, spec in M:
        if only and prop not in only:
            continue
        if name_filter and name_filter not in name:
            continue
        results[:] = [r for r in results if not (r["property"] == prop and r["change"] == name)]
        assert clean(), "scratch worktree must be clean"
        entry = {"property": prop, "change": name, "kind": kind}
        try:
            if kind == "mutant":
                file, old, new = spec
                path = os.path.join(REPO, file)
                src = open(path).read()
                if src.count(old) != 1:
                    entry["result"] = f"not applicable: target matches {src.count(old)} times"
                    results.append(entry)
                    continue
                open(path, "w").write(src.replace(old, new))
                entry["where"] = file
            else:
                commit = resolve(spec)
                entry["commit"] = commit
                r = sh("git", "-C", REPO, "revert", "--no-commit", commit)
                if r.returncode != 0:
                    sh("git", "-C", REPO, "revert", "--abort")
                    sh("git", "-C", REPO, "reset", "--hard", "-q", "HEAD")
                    entry["result"] = "not applicable: revert conflicts with later fixes"
                    results.append(entry)
                    continue
            env = dict(os.environ, VF_NO_EVIDENCE="1", VF_REPO_SRC=f"{REPO}/src", VF_REPLAY_DIR=tempfile.mkdtemp(prefix="vfsens-"))
            t0 = time.time()
            r = sh("./check", prop, "--tier", "quick", cwd=str(ROOT), env=env)
            entry["seconds"] = round(time.time() - t0, 1)
            lines = [l for l in r.stdout.splitlines() if "clause=" in l]
            entry["exit"] = r.returncode
            entry["result"] = "VIOLATION" if r.returncode == 1 and "VIOLATION property=" in r.stdout else ("harness error" if r.returncode == 2 else "not detected")
            entry["first_report"] = lines[0].strip()[:300] if lines else ""
            subprocess.run(["rm", "-rf", env["VF_REPLAY_DIR"]])
        finally:
            sh("git", "-C", REPO, "reset", "--hard", "-q", "HEAD")
        print(prop, name, "->", entry["result"], entry.get("seconds"), flush=True)
        results.append(entry)
        order = {(m[0], m[1]): i for i, m in enumerate(M)}
        results[:] = sorted((r for r in results if (r["property"], r["change"]) in order), key=lambda r: (r["property"], order[(r["property"], r["change"])]))
        outp.write_text(json.dumps(results, indent=1))
    return 0


if __name__ == "__main__":
    sys.exit(main())
