#!/bin/bash
# usage: tools/with_patch.sh <patch.diff> [-R] -- <command...>
# applies the patch to /repo's working tree, runs the command from /verif, always restores /repo afterwards.
P=$(readlink -f "$1"); shift
REV=""
if [ "$1" = "-R" ]; then REV="-R"; shift; fi
[ "$1" = "--" ] && shift
if [ -n "$(git -C /repo status --porcelain --untracked-files=no)" ]; then echo "refusing: /repo has uncommitted changes"; exit 3; fi
git -C /repo apply $REV "$P" || { echo "patch does not apply"; exit 3; }
cd /verif && VF_NO_EVIDENCE=1 "$@"
rc=$?
git -C /repo checkout -- . 
exit $rc
