"""Build and run tiny real scenarios on the in-process Ray double (DESIGN.md 2.1a).

Importing this module installs the Ray double (it must therefore be imported before resonaate).
"""

from __future__ import annotations

import itertools
import logging
import math
import warnings
from contextlib import contextmanager
from datetime import datetime, timedelta

from vf import raydouble

ray = raydouble.install()

import numpy as np  # noqa: E402

from resonaate.common.behavioral_config import BehavioralConfig  # noqa: E402

BehavioralConfig.getConfig().logging.Level = logging.CRITICAL
logging.getLogger("resonaate").setLevel(logging.CRITICAL)
warnings.filterwarnings("ignore")

from resonaate.data import clearDBPath, getDBConnection, setDBPath  # noqa: E402
from resonaate.data import db_connection as _dbc  # noqa: E402
from resonaate.physics.bodies import Earth  # noqa: E402

_db_counter = itertools.count(1)


def iso(t: datetime) -> str:
    return t.strftime("%Y-%m-%dT%H:%M:%S.000Z")


# --------------------------------------------------------------------------------------------------
# configuration fragments (plain dicts, validated later by the real pydantic models)
# --------------------------------------------------------------------------------------------------
def eci_target(tid: int, state, name=None, **platform) -> dict:
    plat = {"type": "spacecraft"}
    plat.update(platform)
    return {
        "id": int(tid), "name": name or f"tgt{tid}", "platform": plat,
        "state": {"type": "eci", "position": [float(x) for x in state[:3]], "velocity": [float(x) for x in state[3:]]},
    }


RADAR_COV = [[2.5e-10, 0, 0, 0], [0, 2.5e-10, 0, 0], [0, 0, 1e-8, 0], [0, 0, 0, 4e-12]]
ADV_COV = [[1.2e-13, 0, 0, 0], [0, 1.2e-13, 0, 0], [0, 0, 6.25e-12, 0], [0, 0, 0, 1.5e-11]]
OPT_COV = [[2.7e-13, 0], [0, 2.7e-13]]


def sensor_body(kind="adv_radar", **over) -> dict:
    base = {
        "type": kind, "slew_rate": 10.0, "azimuth_range": [0.0, 359.9999], "elevation_range": [1.0, 89.9999],
        "efficiency": 0.95, "aperture_diameter": 28.0,
    }
    if kind == "optical":
        base["covariance"] = OPT_COV
        base["aperture_diameter"] = 3.6
    else:
        base["covariance"] = ADV_COV if kind == "adv_radar" else RADAR_COV
        base.update({"tx_power": 2.5e6, "tx_frequency": 1.5e9, "min_detectable_power": 1.0e-15})
    base.update(over)
    return base


def ground_sensor(sid: int, lat: float, lon: float, alt: float = 0.1, kind="adv_radar", name=None, **sensor_over) -> dict:
    return {
        "id": int(sid), "name": name or f"sen{sid}", "platform": {"type": "ground_facility"},
        "state": {"type": "lla", "latitude": float(lat), "longitude": float(lon), "altitude": float(alt)},
        "sensor": sensor_body(kind, **sensor_over),
    }


def space_sensor(sid: int, state, kind="optical", name=None, **sensor_over) -> dict:
    return {
        "id": int(sid), "name": name or f"sen{sid}", "platform": {"type": "spacecraft"},
        "state": {"type": "eci", "position": [float(x) for x in state[:3]], "velocity": [float(x) for x in state[3:]]},
        "sensor": sensor_body(kind, **sensor_over),
    }


def engine(eid: int, sensors: list, targets: list, decision="MunkresDecision", reward="SimpleSummationReward",
           metrics=("TimeSinceObservation",), decision_extra=None) -> dict:
    dec = {"name": decision}
    dec.update(decision_extra or {})
    return {
        "unique_id": int(eid),
        "reward": {"name": reward, "metrics": [{"name": m} for m in metrics]},
        "decision": dec,
        "sensors": sensors, "targets": targets,
    }


def scenario_config(start: datetime, stop: datetime, dt: int, engines: list, *, output_dt=None, truth_only=False,
                    model="two_body", filter_model=None, integrator="RK45", events=None, seq_filter=None,
                    noise=None, propagation=None, observation=None, geopotential=None, perturbations=None,
                    estimation_extra=None) -> dict:
    sf = {"name": "unscented_kalman_filter", "dynamics_model": filter_model or model}
    sf.update(seq_filter or {})
    prop = {"propagation_model": model, "integration_method": integrator, "truth_simulation_only": truth_only}
    prop.update(propagation or {})
    cfg = {
        "time": {"start_timestamp": iso(start), "stop_timestamp": iso(stop), "physics_step_sec": int(dt),
                 "output_step_sec": int(output_dt or dt)},
        "estimation": {"sequential_filter": sf},
        "engines": engines,
        "propagation": prop,
        # process noise well above the default 3e-14: with the default, short steps and precise radars the
        # UKF covariance loses positive definiteness within a few steps (LinAlgError), which is outside C01-C20
        "noise": {"random_seed": 12345, "filter_noise_magnitude": 1e-8, **(noise or {})},
        "events": events or [],
    }
    if estimation_extra:
        cfg["estimation"].update(estimation_extra)
    if observation:
        cfg["observation"] = observation
    if geopotential:
        cfg["geopotential"] = geopotential
    if perturbations:
        cfg["perturbations"] = perturbations
    return cfg


# --------------------------------------------------------------------------------------------------
# geometry helpers for *constructing* visible targets
# --------------------------------------------------------------------------------------------------
def circular_state_over(lat_deg: float, lon_deg: float, when: datetime, radius_km: float, heading_deg: float = 60.0,
                        offset_deg=(0.0, 0.0)):
    """ECI state of a circular orbit whose position at ``when`` is above (lat, lon)+offset at ``radius_km``."""
    from resonaate.physics.transforms.methods import ecef2eci

    lat = math.radians(lat_deg + offset_deg[0])
    lon = math.radians(lon_deg + offset_deg[1])
    r_hat = np.array([math.cos(lat) * math.cos(lon), math.cos(lat) * math.sin(lon), math.sin(lat)])
    ecef = np.concatenate([r_hat * radius_km, np.zeros(3)])
    eci = ecef2eci(ecef, when)
    r = eci[:3]
    rh = r / np.linalg.norm(r)
    north = np.array([0.0, 0.0, 1.0]) - rh[2] * rh
    if np.linalg.norm(north) < 1e-9:
        north = np.array([1.0, 0.0, 0.0]) - rh[0] * rh
    north /= np.linalg.norm(north)
    east = np.cross(north, rh) * -1.0
    h = math.radians(heading_deg)
    vdir = math.cos(h) * north + math.sin(h) * east
    v = math.sqrt(Earth.mu / radius_km) * vdir
    return np.concatenate([r, v])


# --------------------------------------------------------------------------------------------------
# building / running
# --------------------------------------------------------------------------------------------------
def _dispose_cached_db():
    cache = getattr(_dbc._GetDBConnection, "_GetDBConnection__cached_interfaces")
    for db in list(cache.values()):
        try:
            db.engine.dispose()
        except Exception:  # noqa: BLE001
            pass
    cache.clear()


def fresh_db(path: str | None = None) -> str:
    """Point resonaate at a fresh (in-memory unless ``path``) output database."""
    try:
        clearDBPath()
    except Exception:  # noqa: BLE001
        pass
    _dispose_cached_db()
    raydouble.reset_store()
    if "_noise_state" in globals():
        _noise_state["calls"] = {}  # per-call noise counters start afresh with every scenario
    url = "sqlite://" if path is None else f"sqlite:///{path}"
    setDBPath(url)
    return url


def build(config: dict, db_file: str | None = None, importer_db_path: str | None = None):
    """Equivalent of ``buildScenarioFromConfigDict`` with a harness-chosen database location."""
    from resonaate.dynamics.integration_events.event_stack import EventStack
    from resonaate.scenario.config import ScenarioConfig
    from resonaate.scenario.scenario import Scenario
    from resonaate.scenario.scenario_builder import ScenarioBuilder

    if not ray.is_initialized():
        ray.init()
    fresh_db(db_file)
    try:
        EventStack.logAndFlushEvents()
    except Exception:  # noqa: BLE001
        pass
    cfg = ScenarioConfig(**config)
    builder = ScenarioBuilder(cfg, importer_db_path=importer_db_path)
    logging.getLogger("resonaate").setLevel(logging.CRITICAL)
    return Scenario(
        builder.config, builder.clock, builder.target_agents, builder.estimate_agents, builder.sensor_agents,
        builder.tasking_engines, importer_db_path=importer_db_path, logger=builder.logger,
    )


def raw_sql(sql: str, params=()):
    """Run plain SQL on the current output database (independent of the ORM layer)."""
    db = getDBConnection()
    conn = db.engine.raw_connection()
    try:
        cur = conn.cursor()
        cur.execute(sql, params)
        return cur.fetchall()
    finally:
        cur.close()


_noise_state = {"installed": False, "scale": 1.0, "salt": 0, "orig": None}


def install_keyed_noise(scale: float = 1.0, salt: int = 0, per_call: bool = False):
    """Replace the simulator's measurement-noise draw (NumPy *global* RNG, i.e. dependent on execution
    order and process) by a pure function of (sensor state, target state, epoch, salt): the same
    N(0, R) distribution, but results become a function of the case only.  ``scale=0`` switches noise off.
    Harness-side patch of ``Measurement.calculateMeasurement``; the noise-free part is the original code."""
    import hashlib

    from resonaate.physics import measurements as meas

    _noise_state["scale"] = float(scale)
    _noise_state["salt"] = int(salt)
    # per_call: the n-th draw for the same (sensor state, target state, epoch) gets its own noise, as with a real random
    # generator (two measurements of one pair at one epoch then differ); still a pure function of the case as long as the
    # order of the draws is (i.e. without schedule permutations)
    _noise_state["per_call"] = bool(per_call)
    _noise_state["calls"] = {}
    if _noise_state["installed"]:
        return
    orig = meas.Measurement.calculateMeasurement
    _noise_state["orig"] = orig

    def calculateMeasurement(self, sen_eci_state, tgt_eci_state, utc_date, noisy=False):
        clean = orig(self, sen_eci_state, tgt_eci_state, utc_date, noisy=False)
        if not noisy or _noise_state["scale"] == 0.0:
            return clean
        h = hashlib.sha256()
        h.update(np.ascontiguousarray(sen_eci_state, dtype=float).tobytes())
        h.update(np.ascontiguousarray(tgt_eci_state, dtype=float).tobytes())
        h.update(utc_date.isoformat().encode())
        h.update(str(_noise_state["salt"]).encode())
        if _noise_state.get("per_call"):
            key = h.hexdigest()
            nth = _noise_state["calls"].get(key, 0)
            _noise_state["calls"][key] = nth + 1
            h.update(str(nth).encode())
        rng = np.random.default_rng(int.from_bytes(h.digest()[:8], "big"))
        z = rng.standard_normal(self._r_matrix.shape[0])
        noise = _noise_state["scale"] * (self._sqrt_noise_covar @ z)
        return {k: v + n for (k, v), n in zip(clean.items(), noise)}

    meas.Measurement.calculateMeasurement = calculateMeasurement
    _noise_state["installed"] = True
