"""Runs one scenario configuration on REAL Ray (no double) and dumps the truth ephemerides; used for the fidelity clause of C10.

usage: python -m vf.realray_run <config.json> <out.json>
"""

import json
import logging
import os
import sqlite3
import sys
import tempfile
from datetime import datetime, timedelta


def main():
    cfg = json.load(open(sys.argv[1]))
    out = sys.argv[2]
    from resonaate.common.behavioral_config import BehavioralConfig

    BehavioralConfig.getConfig().logging.Level = logging.CRITICAL
    logging.getLogger("resonaate").setLevel(logging.CRITICAL)
    import ray

    try:
        ray.init(num_cpus=4, include_dashboard=False, logging_level=logging.ERROR)
    except Exception as exc:  # noqa: BLE001 - a Ray runtime that cannot start makes this comparison inconclusive, nothing more
        json.dump({"unavailable": repr(exc)[:300]}, open(out, "w"))
        return
    from resonaate.physics.time.stardate import datetimeToJulianDate
    from resonaate.scenario import buildScenarioFromConfigDict

    tmp = tempfile.mkdtemp(prefix="vf-realray-")
    db = os.path.join(tmp, "out.sqlite3")
    sc = buildScenarioFromConfigDict(cfg["config"], internal_db_path=db)
    t0 = datetime.fromisoformat(cfg["start"])
    sc.propagateTo(datetimeToJulianDate(t0 + timedelta(seconds=cfg["seconds"])))
    con = sqlite3.connect(db)
    rows = con.execute("select agent_id, julian_date, pos_x_km, pos_y_km, pos_z_km, vel_x_km_p_sec, vel_y_km_p_sec, vel_z_km_p_sec from truth_ephemerides order by agent_id, julian_date").fetchall()
    counts = {t: con.execute(f"select count(*) from {t}").fetchone()[0] for t in ("epochs", "agents", "truth_ephemerides", "estimate_ephemerides", "tasks")}
    con.close()
    json.dump({"truth": [[r[0], repr(r[1])] + [float(x).hex() for x in r[2:]] for r in rows], "counts": counts}, open(out, "w"))
    ray.shutdown()
    import shutil

    shutil.rmtree(tmp, ignore_errors=True)


if __name__ == "__main__":
    main()
