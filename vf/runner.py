"""Runner for the generated-input checks (see DESIGN.md section 2).

A *property module* (``vf/props/cXX.py``) exposes ``PROP = Prop("Cxx", ...)`` and registers *clauses*.
A clause is a pair (strategy, check) where ``strategy`` generates a JSON-serialisable ``case`` and
``check(case, rec)`` evaluates the real code against the oracle and raises :class:`Violation`.
The same ``check`` is used by the search (through Hypothesis), by the replay tier and by
``./check Cxx --replay file`` (plain function call, no Hypothesis).

Exit codes: 0 held / only known findings, 1 VIOLATION, 2 harness error.
"""

from __future__ import annotations

import hashlib
import importlib
import json
import multiprocessing as mp
import os
import sys
import time
import traceback
from collections import Counter
from pathlib import Path

ROOT = Path(__file__).resolve().parent.parent
REPO_SRC = os.environ.get("VF_REPO_SRC", "/repo/src")
EVIDENCE_DIR = ROOT / "evidence"
REPLAY_DIR = ROOT / "replays"
REPLAY_OUT = Path(os.environ["VF_REPLAY_DIR"]) if os.environ.get("VF_REPLAY_DIR") else REPLAY_DIR  # where new counterexamples go
KNOWN_FILE = ROOT / "known_findings.json"

MAX_SAMPLES = 6
MAX_KEYS = 200_000  # cap on the per-clause distinct-key set that is shipped between processes


class Violation(Exception):
    """The real code disagrees with the oracle on a sound input."""

    def __init__(self, label: str, msg: str, details: dict | None = None, case=None):
        super().__init__(f"{label}: {msg}")
        self.label = label
        self.msg = msg
        self.details = details or {}
        self.case = case  # optional smaller case that reproduces the same failure


class HarnessError(Exception):
    """Something is wrong in the machinery itself (never reported as a violation)."""


class Skip(Exception):
    """Case is outside the domain / inside a guard band: counted, not a pass."""

    def __init__(self, reason: str):
        super().__init__(reason)
        self.reason = reason


def stable_seed(*parts) -> int:
    h = hashlib.sha256("|".join(str(p) for p in parts).encode()).digest()
    return int.from_bytes(h[:8], "big")


def jsonable(x):
    """Best-effort conversion of a case/details structure to JSON types (floats stay exact)."""
    import numpy as np

    if isinstance(x, dict):
        return {str(k): jsonable(v) for k, v in x.items()}
    if isinstance(x, (list, tuple, set, frozenset)):
        return [jsonable(v) for v in x]
    if isinstance(x, np.ndarray):
        return jsonable(x.tolist())
    if isinstance(x, (np.floating,)):
        return float(x)
    if isinstance(x, (np.integer,)):
        return int(x)
    if isinstance(x, (np.bool_,)):
        return bool(x)
    if isinstance(x, float):
        if x != x or x in (float("inf"), float("-inf")):
            return repr(x)
        return x
    if isinstance(x, (int, str, bool)) or x is None:
        return x
    return repr(x)


class Recorder:
    """Per-clause statistics: evaluations, distinct non-trivial keys, labels, samples."""

    def __init__(self):
        self.evaluations = 0
        self.keys: set = set()
        self.keys_overflow = 0
        self.labels: Counter = Counter()
        self.skips: Counter = Counter()
        self.samples: list = []
        self.known_hits: Counter = Counter()
        self.max_err: dict = {}
        self._cur_nontrivial = False
        self.known_ids: set = set()  # ids listed as status=known in known_findings.json for this property

    def excluded(self, finding_id: str) -> bool:
        """For checks that can continue past a listed known finding: True (and counted) iff it is listed."""
        if finding_id in self.known_ids:
            self.known_hits[finding_id] += 1
            return True
        return False

    # -- called by check functions -------------------------------------------------------------
    def nontrivial(self, key) -> None:
        """Mark the current case as non-trivial; ``key`` identifies it for distinct counting."""
        self._cur_nontrivial = True
        k = key if isinstance(key, str) else json.dumps(jsonable(key), sort_keys=True)
        if len(self.keys) < MAX_KEYS:
            self.keys.add(k)
        elif k not in self.keys:
            self.keys_overflow += 1

    def label(self, name: str, n: int = 1) -> None:
        self.labels[name] += n

    def bulk(self, evaluations: int, nontrivial: int) -> None:
        """Enumerations that check many distinct sub-cases inside one call account for them here."""
        self.evaluations += evaluations
        self.keys_overflow += nontrivial

    def err(self, name: str, value: float) -> None:
        """Track the worst observed error of a toleranced comparison (for calibration/evidence)."""
        v = float(value)
        if v != v:
            # a NaN difference compares False with every tolerance ("err > tol" would let it pass silently): the compared
            # quantity is not a number, which no toleranced property allows
            raise Violation("not_a_number:" + name, f"the difference tracked as '{name}' is NaN: one of the compared quantities is not a number")
        if v > self.max_err.get(name, -1.0):
            self.max_err[name] = v

    # -- merge ---------------------------------------------------------------------------------
    def dump(self) -> dict:
        return {
            "evaluations": self.evaluations,
            "keys": list(self.keys),
            "keys_overflow": self.keys_overflow,
            "labels": dict(self.labels),
            "skips": dict(self.skips),
            "samples": self.samples,
            "known_hits": dict(self.known_hits),
            "max_err": self.max_err,
        }

    def merge(self, d: dict) -> None:
        self.evaluations += d["evaluations"]
        for k in d["keys"]:
            if len(self.keys) < MAX_KEYS:
                self.keys.add(k)
        self.keys_overflow += d["keys_overflow"]
        self.labels.update(d["labels"])
        self.skips.update(d["skips"])
        for s in d["samples"]:
            if len(self.samples) < MAX_SAMPLES:
                self.samples.append(s)
        self.known_hits.update(d["known_hits"])
        for k, v in d["max_err"].items():
            if v > self.max_err.get(k, -1.0):
                self.max_err[k] = v


class Clause:
    def __init__(self, prop, name, check, strategy=None, quick=200, thorough=2000, shards=1,
                 thorough_shards=None, shrink=True, custom=None, doc="", rule=""):
        self.prop = prop
        self.name = name
        self.check = check  # check(case, rec)
        self.strategy = strategy  # callable -> hypothesis strategy (lazy) or None
        self.quick = quick
        self.thorough = thorough
        self.shards = shards
        self.thorough_shards = thorough_shards or max(shards, 16)
        self.shrink = shrink
        self.custom = custom  # custom(ctx) -> iterable of cases (exhaustive/sweeps), may be sharded
        self.doc = doc
        self.rule = rule


class Prop:
    def __init__(self, pid: str, title: str = "", rule: str = "", assumptions=None, setup=None):
        self.pid = pid
        self.title = title
        self.rule = rule
        self.assumptions = assumptions or []
        self.clauses: dict[str, Clause] = {}
        self.known_matchers: dict = {}  # finding id -> predicate(clause_name, case, violation)
        self.selftests: list = []
        self.setup = setup

    def clause(self, name, strategy=None, **kw):
        def deco(fn):
            self.clauses[name] = Clause(self, name, fn, strategy=strategy, doc=fn.__doc__ or "", **kw)
            return fn

        return deco

    def sweep(self, name, **kw):
        """Register a custom (non-Hypothesis) enumerator: fn(ctx) yields cases for ``check``."""

        def deco(fn):
            c = self.clauses[name]
            c.custom = fn
            for k, v in kw.items():
                setattr(c, k, v)
            return fn

        return deco

    def known(self, finding_id):
        def deco(fn):
            self.known_matchers[finding_id] = fn
            return fn

        return deco

    def selftest(self, fn):
        self.selftests.append(fn)
        return fn


# ----------------------------------------------------------------------------------------------
def load_known(pid: str) -> tuple[dict, list]:
    if not KNOWN_FILE.exists():
        return {}, []
    data = json.loads(KNOWN_FILE.read_text())
    known = {f["id"]: f for f in data.get("findings", []) if f["property"] == pid and f["status"] == "known"}
    fixed = [f for f in data.get("findings", []) if f["property"] == pid and f["status"] == "fixed"]
    return known, fixed


def in_repo(tb) -> str | None:
    """Innermost traceback frame that lies in the repository under test."""
    inner = None
    for fs in traceback.extract_tb(tb):
        if "/resonaate/" in fs.filename and "/verif/" not in fs.filename:
            inner = f"{Path(fs.filename).name}:{fs.name}"
    return inner


def guarded(clause: Clause, rec: Recorder, known: dict, case):
    """Run one case.  Returns None or a Violation not covered by a known finding."""
    rec.evaluations += 1
    rec._cur_nontrivial = False
    try:
        clause.check(case, rec)
    except Skip as s:
        rec.skips[s.reason] += 1
        return None
    except Violation as v:
        viol = v
    except HarnessError:
        raise
    except AssertionError:
        raise
    except Exception as e:  # noqa: BLE001
        where = in_repo(e.__traceback__)
        if where is None:
            raise HarnessError(f"{clause.prop.pid}/{clause.name}: {type(e).__name__}: {e}\n{traceback.format_exc()}") from e
        viol = Violation(f"exception:{type(e).__name__}@{where}", str(e)[:300],
                         {"traceback": traceback.format_exc()[-1500:]})
    else:
        if rec._cur_nontrivial and len(rec.samples) < MAX_SAMPLES:
            rec.samples.append(jsonable(case))
        return None
    for fid, pred in clause.prop.known_matchers.items():
        if fid in known:
            try:
                hit = pred(clause.name, case, viol)
            except Exception:  # noqa: BLE001
                hit = False
            if hit:
                rec.known_hits[fid] += 1
                return None
    return viol


def _hyp_settings(n, shrink):
    from hypothesis import HealthCheck, Phase, settings

    phases = [Phase.explicit, Phase.generate] + ([Phase.shrink] if shrink else [])
    return settings(max_examples=n, database=None, deadline=None, derandomize=False,
                    report_multiple_bugs=False, phases=phases,
                    suppress_health_check=[HealthCheck.too_slow, HealthCheck.data_too_large,
                                           HealthCheck.large_base_example],
                    print_blob=False)


def run_shard(args):
    """Executed in a worker (or inline): one shard of one clause."""
    modname, cname, tier, seed, shard, nshards, n_examples = args
    t0 = time.time()
    out = {"clause": cname, "shard": shard, "violation": None, "error": None}
    rec = Recorder()
    try:
        mod = importlib.import_module(modname)
        prop: Prop = mod.PROP
        clause = prop.clauses[cname]
        known, _ = load_known(prop.pid)
        rec.known_ids = set(known)
        sseed = stable_seed(seed, prop.pid, cname, shard)
        if clause.custom is not None:
            ctx = {"tier": tier, "seed": sseed, "shard": shard, "nshards": nshards, "rec": rec,
                   "n": n_examples}
            for case in clause.custom(ctx):
                v = guarded(clause, rec, known, case)
                if v is not None:
                    out["violation"] = {"label": v.label, "msg": v.msg, "details": jsonable(v.details),
                                        "case": jsonable(v.case if v.case is not None else case)}
                    break
        else:
            import hypothesis
            from hypothesis import given

            last = {}

            def test(case):
                v = guarded(clause, rec, known, case)
                if v is not None:
                    last["case"] = case
                    last["v"] = v
                    raise v

            strat = clause.strategy()
            wrapped = hypothesis.seed(sseed % (2**63))(
                _hyp_settings(n_examples, clause.shrink)(given(strat)(test)))
            try:
                wrapped()
            except Violation:
                v = last["v"]
                out["violation"] = {"label": v.label, "msg": v.msg, "details": jsonable(v.details),
                                    "case": jsonable(v.case if v.case is not None else last["case"])}
            except hypothesis.errors.FailedHealthCheck as e:
                out["error"] = f"health check: {e}"
            except hypothesis.errors.Flaky as e:
                # a case that fails and then passes on replay: report the recorded failure, flagged
                if "v" in last:
                    v = last["v"]
                    out["violation"] = {"label": v.label, "msg": "[flaky on replay] " + v.msg,
                                        "details": jsonable(v.details), "case": jsonable(last["case"])}
                else:
                    out["error"] = f"flaky: {e}"
    except HarnessError as e:
        out["error"] = str(e)
    except Exception:  # noqa: BLE001
        out["error"] = traceback.format_exc()
    out["rec"] = rec.dump()
    out["wall"] = time.time() - t0
    return out


def write_replay(pid, cname, viol) -> Path:
    d = REPLAY_OUT / pid
    d.mkdir(parents=True, exist_ok=True)
    body = {"property": pid, "clause": cname, "label": viol["label"], "message": viol["msg"],
            "details": viol["details"], "case": viol["case"]}
    sha = hashlib.sha256(json.dumps([cname, viol["case"]], sort_keys=True).encode()).hexdigest()[:12]
    p = d / f"{cname}-{sha}.json"
    p.write_text(json.dumps(body, indent=1, sort_keys=True))
    return p


def replay_file(prop: Prop, path: Path, known: dict, recs: dict):
    body = json.loads(Path(path).read_text())
    cname = body["clause"]
    if cname not in prop.clauses:
        raise HarnessError(f"replay {path}: unknown clause {cname}")
    clause = prop.clauses[cname]
    case = body["case"]
    if hasattr(sys.modules[prop.__module_name__], "decode_case"):
        case = sys.modules[prop.__module_name__].decode_case(cname, case)
    rec = recs.setdefault(cname, Recorder())
    rec.known_ids = set(known)
    rec.label("replayed")
    return cname, case, guarded(clause, rec, known, case)


def main(argv=None):
    import argparse

    ap = argparse.ArgumentParser()
    ap.add_argument("pid")
    ap.add_argument("--tier", default=os.environ.get("VERIF_TIER", "quick"), choices=["quick", "thorough"])
    ap.add_argument("--replay", default=None)
    ap.add_argument("--clause", action="append", default=None, help="restrict to clause(s) (debugging)")
    ap.add_argument("--scale", type=float, default=1.0, help="multiply example counts (debugging)")
    ap.add_argument("--jobs", type=int, default=int(os.environ.get("VF_JOBS", "16")))
    ap.add_argument("--no-evidence", action="store_true")
    a = ap.parse_args(argv)

    pid = a.pid.upper()
    seed = int(os.environ.get("VERIF_SEED", "1") or "1")
    t0 = time.time()
    modname = f"vf.props.{pid.lower()}"
    try:
        mod = importlib.import_module(modname)
        prop: Prop = mod.PROP
        prop.__module_name__ = modname
        known, fixed = load_known(pid)
        for st in prop.selftests:
            st()
    except Exception:  # noqa: BLE001
        print(f"HARNESS-ERROR property={pid} import/selftest failed", flush=True)
        traceback.print_exc()
        return 2

    recs: dict[str, Recorder] = {}
    violations = []
    errors = []

    # --- single replay ------------------------------------------------------------------------
    if a.replay:
        try:
            cname, case, v = replay_file(prop, Path(a.replay), known, recs)
        except HarnessError as e:
            print(f"HARNESS-ERROR {e}")
            return 2
        if v is not None:
            print(f"replay: {v.label}: {v.msg}")
            print(f"VIOLATION property={pid} replay={a.replay}")
            return 1
        print(f"replay: case passes ({cname})")
        return 0

    # --- replay tier (saved inputs) -----------------------------------------------------------
    rdir = REPLAY_DIR / pid
    if rdir.exists():
        for f in sorted(rdir.glob("*.json")):
            try:
                cname, case, v = replay_file(prop, f, known, recs)
            except HarnessError as e:
                errors.append(str(e))
                continue
            if v is not None:
                violations.append((cname, {"label": v.label, "msg": v.msg, "details": jsonable(v.details),
                                           "case": jsonable(case)}, f))

    # --- search -------------------------------------------------------------------------------
    jobs = []
    for cname, c in prop.clauses.items():
        if a.clause and cname not in a.clause:
            continue
        n = c.quick if a.tier == "quick" else c.thorough
        n = max(1, int(n * a.scale))
        ns = c.shards if a.tier == "quick" else c.thorough_shards
        ns = max(1, min(ns, n))
        per = -(-n // ns)
        for s in range(ns):
            jobs.append((modname, cname, a.tier, seed, s, ns, per))
    results = []
    if a.jobs <= 1 or len(jobs) == 1:
        results = [run_shard(j) for j in jobs]
    else:
        ctx = mp.get_context("fork")
        with ctx.Pool(min(a.jobs, len(jobs))) as pool:
            results = pool.map(run_shard, jobs, chunksize=1)
    walls = Counter()
    for r in results:
        recs.setdefault(r["clause"], Recorder()).merge(r["rec"])
        walls[r["clause"]] += r["wall"]
        if r["error"]:
            errors.append(f"{r['clause']}[{r['shard']}]: {r['error']}")
        if r["violation"]:
            violations.append((r["clause"], r["violation"], None))

    # --- report -------------------------------------------------------------------------------
    total_eval = sum(r.evaluations for r in recs.values())
    all_keys = set()
    for cname, r in recs.items():
        all_keys.update(f"{cname}:{k}" for k in r.keys)
    samples = []
    for cname, r in recs.items():
        for s in r.samples[:2]:
            samples.append({"clause": cname, "case": s})
    known_hits = Counter()
    for r in recs.values():
        known_hits.update(r.known_hits)

    rc = 0
    seen = set()
    out_lines = []
    for cname, viol, path in violations:
        key = (cname, viol["label"])
        if key in seen:
            continue
        seen.add(key)
        if path is None:
            path = write_replay(pid, cname, viol)
        out_lines.append(f"  clause={cname} label={viol['label']} :: {viol['msg'][:400]}")
        out_lines.append(f"VIOLATION property={pid} replay={path}")
        rc = 1
    for fid, f in known.items():
        n = known_hits.get(fid, 0)
        out_lines.append(f"KNOWN-FINDING: property={pid} {fid}: {f['what']} (cases excluded this run: {n})")
    if errors:
        for e in errors:
            print(f"HARNESS-ERROR property={pid} {e}", flush=True)
        if rc == 0:
            rc = 2

    per_clause = {}
    for cname, r in recs.items():
        per_clause[cname] = {
            "evaluations": r.evaluations, "distinct_nontrivial": len(r.keys) + r.keys_overflow,
            "labels": dict(r.labels), "skipped": dict(r.skips), "excluded_known": dict(r.known_hits),
            "max_observed_error": r.max_err, "cpu_s": round(walls.get(cname, 0.0), 2),
            "rule": prop.clauses[cname].rule or prop.clauses[cname].doc.strip().split("\n")[0],
        }
    evidence = {
        "property_id": pid, "tier": a.tier, "seed": seed, "level": "exploration",
        "coverage": {
            "evaluations": total_eval,
            "distinct_nontrivial": len(all_keys) + sum(r.keys_overflow for r in recs.values()),
            "rule": prop.rule,
            "samples": samples[:12] or [{"note": "no non-trivial sample recorded"}],
            "clauses": per_clause,
            "exhaustive": False,
        },
        "assumptions": prop.assumptions,
        "wall_s": round(time.time() - t0, 2),
        "violations": len(seen),
        "known_findings_listed": sorted(known),
        "fixed_findings_listed": [f["id"] for f in fixed],
    }
    if hasattr(mod, "finish_evidence"):
        mod.finish_evidence(evidence, recs)
    if not a.no_evidence and not a.clause and not os.environ.get("VF_NO_EVIDENCE"):
        EVIDENCE_DIR.mkdir(exist_ok=True)
        (EVIDENCE_DIR / f"{pid}.json").write_text(json.dumps(evidence, indent=1, sort_keys=True))

    print(f"[{pid}] tier={a.tier} seed={seed} evaluations={total_eval} "
          f"distinct_nontrivial={evidence['coverage']['distinct_nontrivial']} wall={evidence['wall_s']}s")
    for cname, pc in per_clause.items():
        print(f"   {cname}: n={pc['evaluations']} nontrivial={pc['distinct_nontrivial']} "
              f"skipped={sum(pc['skipped'].values())} labels={pc['labels']} maxerr={pc['max_observed_error']}")
    for l in out_lines:
        print(l)
    sys.stdout.flush()
    return rc


if __name__ == "__main__":
    sys.exit(main())
