"""Low-precision analytic Sun / Moon ephemerides (Astronomical Almanac / Vallado Alg. 29 & 31), referred to J2000."""

from __future__ import annotations

import math

import numpy as np

AU = 149597870.7
RE = 6378.1363
EPS0 = math.radians(23.439291)
PREC = 1.396971  # general precession in longitude, deg per Julian century


def _ecl2eq(lon, lat, r):
    cl, sl, cb, sb = math.cos(lon), math.sin(lon), math.cos(lat), math.sin(lat)
    ce, se = math.cos(EPS0), math.sin(EPS0)
    return r * np.array([cb * cl, ce * cb * sl - se * sb, se * cb * sl + ce * sb])


def sun(jd: float) -> np.ndarray:
    t = (jd - 2451545.0) / 36525.0
    lm = 280.460 + 36000.771 * t
    m = math.radians((357.5291092 + 35999.05034 * t) % 360.0)
    lon = lm + 1.914666471 * math.sin(m) + 0.019994643 * math.sin(2 * m) - PREC * t
    r = 1.000140612 - 0.016708617 * math.cos(m) - 0.000139589 * math.cos(2 * m)
    return _ecl2eq(math.radians(lon % 360.0), 0.0, r * AU)


def moon(jd: float) -> np.ndarray:
    t = (jd - 2451545.0) / 36525.0
    d = math.radians
    lon = (218.32 + 481267.8813 * t + 6.29 * math.sin(d(134.9 + 477198.85 * t)) - 1.27 * math.sin(d(259.2 - 413335.38 * t))
           + 0.66 * math.sin(d(235.7 + 890534.23 * t)) + 0.21 * math.sin(d(269.9 + 954397.70 * t))
           - 0.19 * math.sin(d(357.5 + 35999.05 * t)) - 0.11 * math.sin(d(186.6 + 966404.05 * t))) - PREC * t
    lat = (5.13 * math.sin(d(93.3 + 483202.03 * t)) + 0.28 * math.sin(d(228.2 + 960400.87 * t))
           - 0.28 * math.sin(d(318.3 + 6003.18 * t)) - 0.17 * math.sin(d(217.6 - 407332.20 * t)))
    par = (0.9508 + 0.0518 * math.cos(d(134.9 + 477198.85 * t)) + 0.0095 * math.cos(d(259.2 - 413335.38 * t))
           + 0.0078 * math.cos(d(235.7 + 890534.23 * t)) + 0.0028 * math.cos(d(269.9 + 954397.70 * t)))
    r = RE / math.sin(d(par))
    return _ecl2eq(d(lon % 360.0), d(lat), r)
