"""Independent Greenwich angle of the J2000 inertial frame: IAU-82 GMST of the UT1 Julian date minus the accumulated
precession in right ascension.  Good to ~2e-4 rad (nutation / equation of the equinoxes is not modelled): enough to tell a
whole-day or whole-second slip of the Earth-rotation argument (1.7e-2 rad per day, 7.3e-5 rad per second) from the real thing."""

import math

TWOPI = 2 * math.pi


def gmst82(jd_ut1):
    t = (jd_ut1 - 2451545.0) / 36525.0
    sec = 67310.54841 + (876600.0 * 3600.0 + 8640184.812866) * t + 0.093104 * t * t - 6.2e-6 * t**3
    return math.radians((sec % 86400.0) / 240.0) % TWOPI


def greenwich_angle(t_utc, delta_ut1):
    """Right ascension (rad, J2000 frame) of the Greenwich meridian at the UTC datetime ``t_utc``."""
    sod = t_utc.hour * 3600 + t_utc.minute * 60 + t_utc.second + t_utc.microsecond / 1e6 + delta_ut1
    jd_ut1 = t_utc.toordinal() + 1721424.5 + sod / 86400.0
    cent = (jd_ut1 - 2451545.0) / 36525.0
    prec_ra = math.radians((2306.2181 + 2306.2181) * cent / 3600.0 + (0.30188 + 1.09468) * cent**2 / 3600.0)
    return (gmst82(jd_ut1) - prec_ra) % TWOPI


def _rot3(a):
    c, s = math.cos(a), math.sin(a)
    return [[c, s, 0.0], [-s, c, 0.0], [0.0, 0.0, 1.0]]


def _rot2(a):
    c, s = math.cos(a), math.sin(a)
    return [[c, 0.0, -s], [0.0, 1.0, 0.0], [s, 0.0, c]]


def _mul(m, v):
    return [sum(m[i][j] * v[j] for j in range(3)) for i in range(3)]


def ecef_to_j2000_direction(ecef, t_utc, delta_ut1):
    """Earth-fixed position -> J2000 inertial position by GMST-82 and IAU-76 precession only (no nutation, no polar motion):
    direction good to ~2e-4 rad.  Frame rotations as in Vallado (3-57): r_J2000 = ROT3(zeta) ROT2(-theta) ROT3(z) r_MOD."""
    sod = t_utc.hour * 3600 + t_utc.minute * 60 + t_utc.second + t_utc.microsecond / 1e6 + delta_ut1
    jd_ut1 = t_utc.toordinal() + 1721424.5 + sod / 86400.0
    t = (jd_ut1 - 2451545.0) / 36525.0
    arc = math.radians(1.0 / 3600.0)
    zeta = (2306.2181 * t + 0.30188 * t * t + 0.017998 * t**3) * arc
    theta = (2004.3109 * t - 0.42665 * t * t - 0.041833 * t**3) * arc
    z = (2306.2181 * t + 1.09468 * t * t + 0.018203 * t**3) * arc
    r_mod = _mul(_rot3(-gmst82(jd_ut1)), list(ecef))
    return _mul(_rot3(zeta), _mul(_rot2(-theta), _mul(_rot3(z), r_mod)))


def selftest():
    from datetime import datetime

    # 2000-01-01T12:00:00 UT1: GMST = 280.46061837 deg (definition of the polynomial's constant term), no precession yet
    g = greenwich_angle(datetime(2000, 1, 1, 12, 0, 0), 0.0)
    assert abs(math.degrees(g) - 280.46061837) < 1e-6, math.degrees(g)
    # one sidereal day later the angle has advanced by 2 pi (+ precession ~ 1e-6 rad)
    from datetime import timedelta

    g2 = greenwich_angle(datetime(2000, 1, 1, 12, 0, 0) + timedelta(seconds=86164.0905), 0.0)
    assert abs((g2 - g + math.pi) % TWOPI - math.pi) < 5e-6, g2 - g
    # the full direction agrees with the scalar Greenwich angle for the Greenwich meridian on the equator
    when = datetime(2015, 7, 1, 3, 4, 5)
    v = ecef_to_j2000_direction([1.0, 0.0, 0.0], when, -0.3)
    ga = greenwich_angle(when, -0.3)
    assert abs((math.atan2(v[1], v[0]) - ga + math.pi) % TWOPI - math.pi) < 5e-6, (math.atan2(v[1], v[0]), ga)
    assert abs(v[2] - (-math.radians(2004.3109 / 3600.0) * 0.155 * math.cos(ga))) < 2e-4  # pole has moved by theta towards RA 0
