"""Independent two-body reference: element<->state by direct rotation formulas, propagation by
mean-anomaly advance (elliptic Kepler equation, Newton + bisection safeguard) in the perifocal frame.

Nothing here imports resonaate.  MU is the value the simulator documents (EGM-96, km^3/s^2); it is passed
explicitly by callers that want to be sure of agreement.
"""

from __future__ import annotations

import math

import numpy as np

MU = 398600.4415
RE = 6378.1363
TWOPI = 2.0 * math.pi


def rot3(a):
    c, s = math.cos(a), math.sin(a)
    return np.array([[c, -s, 0.0], [s, c, 0.0], [0.0, 0.0, 1.0]])


def rot1(a):
    c, s = math.cos(a), math.sin(a)
    return np.array([[1.0, 0.0, 0.0], [0.0, c, -s], [0.0, s, c]])


def coe2rv(a, e, inc, raan, argp, nu, mu=MU):
    """Classical elements (rad) -> ECI state, active rotations R3(raan) R1(inc) R3(argp) of the perifocal state."""
    p = a * (1.0 - e * e)
    r = p / (1.0 + e * math.cos(nu))
    r_pf = np.array([r * math.cos(nu), r * math.sin(nu), 0.0])
    v_pf = math.sqrt(mu / p) * np.array([-math.sin(nu), e + math.cos(nu), 0.0])
    q = rot3(raan) @ rot1(inc) @ rot3(argp)
    return np.concatenate([q @ r_pf, q @ v_pf])


def solve_kepler(m, e):
    """E from M = E - e sin E; Newton with bisection fallback, to machine precision."""
    m = math.fmod(m, TWOPI)
    if m < 0:
        m += TWOPI
    big_e = m + e * math.sin(m) / (1.0 - math.sin(m + e) + math.sin(m)) if e > 0 else m
    lo, hi = 0.0, TWOPI
    for _ in range(100):
        f = big_e - e * math.sin(big_e) - m
        if f > 0:
            hi = min(hi, big_e)
        else:
            lo = max(lo, big_e)
        d = 1.0 - e * math.cos(big_e)
        step = f / d
        new = big_e - step
        if not (lo <= new <= hi):
            new = 0.5 * (lo + hi)
        if abs(new - big_e) <= 4e-16 * max(1.0, abs(new)):
            big_e = new
            break
        big_e = new
    return big_e


def nu_from_E(big_e, e):
    return 2.0 * math.atan2(math.sqrt(1.0 + e) * math.sin(big_e / 2.0), math.sqrt(1.0 - e) * math.cos(big_e / 2.0))


def E_from_nu(nu, e):
    return 2.0 * math.atan2(math.sqrt(1.0 - e) * math.sin(nu / 2.0), math.sqrt(1.0 + e) * math.cos(nu / 2.0))


def propagate(state, dt, mu=MU):
    """Closed-form two-body propagation of a bound orbit by ``dt`` seconds (works for e = 0 and i = 0/pi:
    everything is done in the orbit's own perifocal basis built from the state, no node/perigee angles)."""
    state = np.asarray(state, dtype=float)
    r = state[:3]
    v = state[3:]
    rn = np.linalg.norm(r)
    h = np.cross(r, v)
    hn = np.linalg.norm(h)
    energy = 0.5 * v.dot(v) - mu / rn
    if energy >= 0:
        raise ValueError("unbound orbit")
    a = -mu / (2.0 * energy)
    evec = np.cross(v, h) / mu - r / rn
    e = np.linalg.norm(evec)
    w_hat = h / hn
    if e > 1e-11:
        p_hat = evec / e
    else:
        p_hat = r / rn
        e = 0.0
    p_hat = p_hat - p_hat.dot(w_hat) * w_hat  # exactly in-plane (for tiny e the direction of evec is noisy)
    p_hat /= np.linalg.norm(p_hat)
    q_hat = np.cross(w_hat, p_hat)
    nu0 = math.atan2(r.dot(q_hat), r.dot(p_hat))
    e0 = E_from_nu(nu0, e)
    m0 = e0 - e * math.sin(e0)
    n = math.sqrt(mu / a**3)
    big_e = solve_kepler(m0 + n * dt, e)
    # position/velocity in the perifocal basis from E directly (no division by sin/cos of nu)
    cos_e, sin_e = math.cos(big_e), math.sin(big_e)
    b = a * math.sqrt(1.0 - e * e)
    x = a * (cos_e - e)
    y = b * sin_e
    rr = a * (1.0 - e * cos_e)
    edot = n * a / rr
    xd = -a * sin_e * edot
    yd = b * cos_e * edot
    return np.concatenate([x * p_hat + y * q_hat, xd * p_hat + yd * q_hat])


def period(a, mu=MU):
    return TWOPI * math.sqrt(a**3 / mu)


def energy(state, mu=MU):
    return 0.5 * float(np.dot(state[3:], state[3:])) - mu / float(np.linalg.norm(state[:3]))


def ang_mom(state):
    return np.cross(state[:3], state[3:])


def sma(state, mu=MU):
    return -mu / (2.0 * energy(state, mu))


def ecc(state, mu=MU):
    r, v = state[:3], state[3:]
    return float(np.linalg.norm(np.cross(v, np.cross(r, v)) / mu - r / np.linalg.norm(r)))


def ntw_basis(state):
    """Columns N, T, W: T along velocity, W along r x v, N = T x W (in-plane, normal to the velocity)."""
    r, v = state[:3], state[3:]
    t = v / np.linalg.norm(v)
    w = np.cross(r, v)
    w /= np.linalg.norm(w)
    n = np.cross(t, w)
    return np.column_stack([n, t, w])


def selftest():
    """Oracle self-test: against a tight numerical integration, invariants, and element round trip."""
    from scipy.integrate import solve_ivp

    rng = np.random.default_rng(7)
    for k in range(12):
        a = rng.uniform(6800, 45000)
        emax = min(0.8, 1 - (RE + 200) / a)
        e = [0.0, 1e-9, emax, rng.uniform(0, emax)][k % 4]
        inc = [0.0, math.pi, rng.uniform(0, math.pi)][k % 3]
        s0 = coe2rv(a, e, inc, rng.uniform(0, TWOPI), rng.uniform(0, TWOPI), rng.uniform(0, TWOPI))
        dt = rng.uniform(1, 2 * period(a))
        s1 = propagate(s0, dt)

        def f(_t, y):
            rr = np.linalg.norm(y[:3])
            return np.concatenate([y[3:], -MU * y[:3] / rr**3])

        sol = solve_ivp(f, (0, dt), s0, method="DOP853", rtol=1e-13, atol=1e-13)
        num = sol.y[:, -1]
        if np.linalg.norm(num[:3] - s1[:3]) > 2e-5 or np.linalg.norm(num[3:] - s1[3:]) > 2e-8:
            raise AssertionError(f"kepler oracle disagrees with DOP853: {np.abs(num - s1)} (a={a}, e={e}, i={inc}, dt={dt})")
        if abs(energy(s1) - energy(s0)) > 1e-11 * abs(energy(s0)):
            raise AssertionError("kepler oracle does not conserve energy")
        if np.linalg.norm(ang_mom(s1) - ang_mom(s0)) > 1e-10 * np.linalg.norm(ang_mom(s0)):
            raise AssertionError("kepler oracle does not conserve angular momentum")
        back = propagate(s1, -dt)
        if np.linalg.norm(back[:3] - s0[:3]) > 1e-6:
            raise AssertionError("kepler oracle is not reversible")
