"""Independent geopotential reference: the *potential* from fully normalised associated Legendre functions read
directly from the coefficient file, and its gradient by 4th-order central differences.

Different algorithm from the code under test (Cunningham V/W recursion on un-normalised coefficients, analytic gradient).
"""

from __future__ import annotations

import math
from functools import lru_cache
from pathlib import Path

import numpy as np


@lru_cache(maxsize=8)
def load_normalised(path: str, nmax: int = 40):
    c = np.zeros((nmax + 1, nmax + 1))
    s = np.zeros((nmax + 1, nmax + 1))
    with open(path, encoding="utf-8") as fh:
        for line in fh:
            parts = line.split()
            if len(parts) < 4:
                continue
            n, m = int(parts[0]), int(parts[1])
            if n > nmax:
                continue
            c[n, m], s[n, m] = float(parts[2]), float(parts[3])
    return c, s


def data_file(model: str) -> str:
    import resonaate.physics.data.geopotential as pkg

    return str(Path(pkg.__file__).parent / model)


def norm_legendre(nmax: int, sphi: float) -> np.ndarray:
    """Fully normalised P_nm(sin phi), standard forward column recursion (Holmes & Featherstone style, no scaling needed for n<=40)."""
    cphi = math.sqrt(max(0.0, 1.0 - sphi * sphi))
    p = np.zeros((nmax + 2, nmax + 2))
    p[0, 0] = 1.0
    if nmax >= 1:
        p[1, 1] = math.sqrt(3.0) * cphi
    for m in range(2, nmax + 1):
        p[m, m] = cphi * math.sqrt((2 * m + 1) / (2.0 * m)) * p[m - 1, m - 1]
    for m in range(0, nmax + 1):
        for n in range(m + 1, nmax + 1):
            a = math.sqrt((2 * n - 1) * (2 * n + 1) / ((n - m) * (n + m)))
            b = math.sqrt((2 * n + 1) * (n + m - 1) * (n - m - 1) / ((n - m) * (n + m) * (2 * n - 3))) if n - m >= 2 else 0.0
            p[n, m] = a * sphi * p[n - 1, m] - b * (p[n - 2, m] if n >= 2 else 0.0)
    return p


def potential(r_ecef, mu, radius, cbar, sbar, degree, order) -> float:
    """Perturbing potential sum_{n=2..degree} sum_{m=0..min(n,order)} (no central term)."""
    x, y, z = (float(v) for v in r_ecef)
    r = math.sqrt(x * x + y * y + z * z)
    sphi = z / r
    lam = math.atan2(y, x)
    p = norm_legendre(degree, sphi)
    total = 0.0
    for n in range(2, degree + 1):
        rr = (radius / r) ** n
        acc = 0.0
        for m in range(0, min(n, order) + 1):
            acc += p[n, m] * (cbar[n, m] * math.cos(m * lam) + sbar[n, m] * math.sin(m * lam))
        total += rr * acc
    return mu / r * total


def gradient(r_ecef, mu, radius, cbar, sbar, degree, order, h: float = 0.5) -> np.ndarray:
    r_ecef = np.asarray(r_ecef, dtype=float)
    g = np.zeros(3)
    for k in range(3):
        e = np.zeros(3)
        e[k] = h
        f = lambda d: potential(r_ecef + d * e, mu, radius, cbar, sbar, degree, order)  # noqa: E731
        g[k] = (-f(2) + 8 * f(1) - 8 * f(-1) + f(-2)) / (12 * h)
    return g


def selftest():
    """J2-only closed form: a = grad( -mu J2 R^2 (3 z^2/r^2 - 1) / (2 r^3) )."""
    mu, radius = 398600.4415, 6378.1363
    cbar = np.zeros((5, 5))
    sbar = np.zeros((5, 5))
    cbar[2, 0] = -4.84165371736e-4
    j2 = -cbar[2, 0] * math.sqrt(5.0)
    rng = np.random.default_rng(5)
    for _ in range(20):
        r = rng.normal(size=3)
        r = r / np.linalg.norm(r) * rng.uniform(6600, 42000)
        g = gradient(r, mu, radius, cbar, sbar, 2, 0)
        x, y, z = r
        rn = np.linalg.norm(r)
        k = -1.5 * j2 * mu * radius**2 / rn**5
        ref = np.array([k * x * (1 - 5 * z * z / rn**2), k * y * (1 - 5 * z * z / rn**2), k * z * (3 - 5 * z * z / rn**2)])
        assert np.linalg.norm(g - ref) < 1e-9 * np.linalg.norm(ref), (g, ref)
