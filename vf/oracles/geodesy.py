"""Independent geodesy / topocentric reference (no resonaate imports).

Constants are the values the simulator documents for its Earth model (EGM-96 radius, WGS-84 eccentricity);
callers pass them in from ``resonaate.physics.bodies.Earth`` where agreement on constants matters.
"""

from __future__ import annotations

import math

import numpy as np


def normal(lat, lon):
    """Outward ellipsoid normal ('up') for geodetic latitude/longitude."""
    return np.array([math.cos(lat) * math.cos(lon), math.cos(lat) * math.sin(lon), math.sin(lat)])


def enu_basis(lat, lon):
    east = np.array([-math.sin(lon), math.cos(lon), 0.0])
    north = np.array([-math.sin(lat) * math.cos(lon), -math.sin(lat) * math.sin(lon), math.cos(lat)])
    return east, north, normal(lat, lon)


def on_ellipsoid_residual(p, a, e2):
    """x^2/a^2 + y^2/a^2 + z^2/b^2 - 1 for a point p."""
    b2 = a * a * (1 - e2)
    return (p[0] ** 2 + p[1] ** 2) / (a * a) + p[2] ** 2 / b2 - 1.0


def gradient_dir(p, a, e2):
    b2 = a * a * (1 - e2)
    g = np.array([p[0] / (a * a), p[1] / (a * a), p[2] / b2])
    return g / np.linalg.norm(g)


def ecef2lla(p, a, e2):
    """Geodetic (lat, lon, alt) by fixed-point iteration on the latitude (converges for all points off the centre)."""
    x, y, z = float(p[0]), float(p[1]), float(p[2])
    lon = math.atan2(y, x)
    rho = math.hypot(x, y)
    if rho < 1e-9:
        lat = math.copysign(math.pi / 2, z) if z != 0 else math.pi / 2
        b = a * math.sqrt(1 - e2)
        return lat, lon, abs(z) - b
    lat = math.atan2(z, rho * (1 - e2))
    for _ in range(60):
        n = a / math.sqrt(1 - e2 * math.sin(lat) ** 2)
        new = math.atan2(z + e2 * n * math.sin(lat), rho)
        if abs(new - lat) < 1e-16:
            lat = new
            break
        lat = new
    n = a / math.sqrt(1 - e2 * math.sin(lat) ** 2)
    if abs(math.cos(lat)) > 1e-3:
        alt = rho / math.cos(lat) - n
    else:
        alt = z / math.sin(lat) - n * (1 - e2)
    return lat, lon, alt


def lla2ecef(lat, lon, alt, a, e2):
    n = a / math.sqrt(1 - e2 * math.sin(lat) ** 2)
    return np.array([(n + alt) * math.cos(lat) * math.cos(lon), (n + alt) * math.cos(lat) * math.sin(lon),
                     (n * (1 - e2) + alt) * math.sin(lat)])


def razel(rel_ecef, lat, lon):
    """(range, azimuth clockwise from north in [0,2pi), elevation) of an ECEF offset vector seen from (lat, lon)."""
    e, n, u = enu_basis(lat, lon)
    de, dn, du = rel_ecef.dot(e), rel_ecef.dot(n), rel_ecef.dot(u)
    rng = float(np.linalg.norm(rel_ecef))
    az = math.atan2(de, dn) % (2 * math.pi)
    el = math.asin(max(-1.0, min(1.0, du / rng)))
    return rng, az, el


def selftest():
    a, e2 = 6378.1363, 0.081819221456**2
    rng = np.random.default_rng(3)
    for _ in range(200):
        lat = rng.uniform(-math.pi / 2, math.pi / 2)
        lon = rng.uniform(-math.pi, math.pi)
        alt = rng.uniform(-1, 60000)
        p = lla2ecef(lat, lon, alt, a, e2)
        s = p - alt * normal(lat, lon)
        assert abs(on_ellipsoid_residual(s, a, e2)) < 1e-12
        assert np.linalg.norm(np.cross(gradient_dir(s, a, e2), normal(lat, lon))) < 1e-12
        la, lo, al = ecef2lla(p, a, e2)
        assert abs(la - lat) < 1e-12 and abs(al - alt) < 1e-8, (la - lat, al - alt)
        assert abs((lo - lon + math.pi) % (2 * math.pi) - math.pi) < 1e-12
