"""In-process double of the subset of the Ray API that resonaate uses (DESIGN.md 2.1).

``install()`` must run before ``resonaate`` is imported; it places a module object named ``ray`` in
``sys.modules``.  Semantics kept from real Ray:

* arguments and results cross a serialisation boundary exactly once per ``.remote()``/``put``; every
  ``get`` returns a fresh deserialised copy whose contiguous NumPy arrays are read-only (pickle
  protocol 5 out-of-band buffers rebuilt on immutable ``bytes``), so tasks act on copies;
* arguments are snapshotted at submission time;
* top-level ``ObjectRef`` arguments are resolved before the task body runs, nested ones are not;
* named actors with ``get_if_exists`` are singletons; actor calls run serially;
* ``wait(refs)`` returns one finished ref - *which one* is decided by the harness-owned scheduler, and a
  task's body (with its side effects) runs when it is chosen to finish.
"""

from __future__ import annotations

import itertools
import pickle
import sys
import types

_counter = itertools.count(1)
_initialized = False
_actors: dict = {}
_scheduler = None  # callable(n_pending, refs) -> index
_log: list = []  # (kind, detail) trace of completions, for evidence / debugging
stats = {"tasks_run": 0, "puts": 0, "gets": 0, "waits": 0, "multi_waits": 0, "max_batch": 0}


def _dumps(obj):
    bufs = []
    data = pickle.dumps(obj, protocol=5, buffer_callback=bufs.append)
    return data, [bytes(b.raw()) for b in bufs]


def _loads(blob):
    data, bufs = blob
    return pickle.loads(data, buffers=[memoryview(b) for b in bufs])


class RayTaskError(Exception):
    pass


class ObjectRef:
    __slots__ = ("_id", "_blob", "_thunk", "_exc", "tag")

    def __init__(self, blob=None, thunk=None, tag=""):
        self._id = next(_counter)
        self._blob = blob
        self._thunk = thunk
        self._exc = None
        self.tag = tag

    def __hash__(self):
        return hash(self._id)

    def __eq__(self, other):
        return isinstance(other, ObjectRef) and other._id == self._id

    def __repr__(self):
        return f"ObjectRef({self._id}:{self.tag})"

    def __reduce__(self):
        # refs nested inside submissions must survive the serialisation boundary as the *same* ref
        return (_lookup_ref, (self._id,))

    def _ready(self):
        return self._thunk is None

    def _run(self):
        if self._thunk is not None:
            thunk, self._thunk = self._thunk, None
            stats["tasks_run"] += 1
            try:
                self._blob = _dumps(thunk())
            except BaseException as e:  # noqa: BLE001
                self._exc = e
            _log.append(("run", self.tag))

    def _value(self):
        self._run()
        if self._exc is not None:
            raise self._exc
        return _loads(self._blob)


_refs: dict = {}


def _register(ref: ObjectRef) -> ObjectRef:
    _refs[ref._id] = ref
    return ref


def _lookup_ref(rid):
    return _refs[rid]


class RemoteFunction:
    def __init__(self, fn):
        self._fn = fn
        self.__name__ = getattr(fn, "__name__", "remote")
        self.__doc__ = fn.__doc__

    def remote(self, *args, **kwargs):
        blob = _dumps((args, kwargs))
        fn = self._fn

        def thunk():
            a, k = _loads(blob)
            a = tuple(x._value() if isinstance(x, ObjectRef) else x for x in a)
            k = {n: (x._value() if isinstance(x, ObjectRef) else x) for n, x in k.items()}
            return fn(*a, **k)

        return _register(ObjectRef(thunk=thunk, tag=self.__name__))

    def options(self, **_kw):
        return self

    def __call__(self, *a, **k):
        raise TypeError("Remote functions cannot be called directly; use .remote()")


class _ActorMethod:
    def __init__(self, inst, name):
        self._inst = inst
        self._name = name

    def remote(self, *args, **kwargs):
        a, k = _loads(_dumps((args, kwargs)))
        ref = _register(ObjectRef(tag=f"actor.{self._name}"))
        try:
            ref._blob = _dumps(getattr(self._inst, self._name)(*a, **k))
        except BaseException as e:  # noqa: BLE001
            ref._exc = e
        return ref


class ActorHandle:
    def __init__(self, inst):
        object.__setattr__(self, "_inst", inst)

    def __getattr__(self, name):
        return _ActorMethod(self._inst, name)

    def __reduce__(self):
        return (_lookup_actor, (id(self._inst),))


def _lookup_actor(iid):
    for h in _actors.values():
        if id(h._inst) == iid:
            return h
    raise KeyError(iid)


class ActorClass:
    def __init__(self, cls, name=None, get_if_exists=False):
        self._cls = cls
        self._name = name
        self._get_if_exists = get_if_exists

    def options(self, name=None, get_if_exists=False, **_kw):
        return ActorClass(self._cls, name=name, get_if_exists=get_if_exists)

    def remote(self, *args, **kwargs):
        if self._name is not None and self._name in _actors:
            if self._get_if_exists:
                return _actors[self._name]
            raise ValueError(f"actor {self._name} exists")
        h = ActorHandle(self._cls(*args, **kwargs))
        _actors[self._name if self._name is not None else f"anon-{next(_counter)}"] = h
        return h


def remote(*args, **kwargs):
    if len(args) == 1 and not kwargs and (isinstance(args[0], type) or callable(args[0])):
        target = args[0]
        return ActorClass(target) if isinstance(target, type) else RemoteFunction(target)

    def deco(target):
        return ActorClass(target) if isinstance(target, type) else RemoteFunction(target)

    return deco


def put(obj):
    stats["puts"] += 1
    return _register(ObjectRef(blob=_dumps(obj), tag="put"))


def get(refs, timeout=None):
    stats["gets"] += 1
    if isinstance(refs, ObjectRef):
        return refs._value()
    refs = list(refs)
    # a blocking get on several pending tasks: under Ray they still *run* (and have their side effects) in an
    # arbitrary order, so the harness-owned scheduler decides the execution order here as well
    pending = [r for r in refs if not r._ready()]
    if len(pending) > 1:
        stats["multi_waits"] += 1
        stats["max_batch"] = max(stats["max_batch"], len(pending))
    while pending:
        idx = 0
        if _scheduler is not None and len(pending) > 1:
            idx = int(_scheduler(len(pending), pending)) % len(pending)
        pending.pop(idx)._run()
    return [r._value() for r in refs]


def wait(refs, num_returns=1, timeout=None, fetch_local=True):
    refs = list(refs)
    stats["waits"] += 1
    if len(refs) > 1:
        stats["multi_waits"] += 1
    stats["max_batch"] = max(stats["max_batch"], len(refs))
    done = []
    rest = list(refs)
    while len(done) < num_returns and rest:
        idx = 0
        if _scheduler is not None and len(rest) > 1:
            idx = int(_scheduler(len(rest), rest)) % len(rest)
        r = rest.pop(idx)
        r._run()
        done.append(r)
    return done, rest


def init(*_a, **_k):
    global _initialized
    _initialized = True
    return {}


def is_initialized():
    return _initialized


def shutdown():
    global _initialized
    _initialized = False


def timeline(*_a, **_k):
    return []


# ---- harness controls ---------------------------------------------------------------------------
def set_scheduler(fn):
    global _scheduler
    _scheduler = fn


def reset_store():
    """Drop every stored object/pending task (between cases).  Actors are kept (see DESIGN 2.1)."""
    _refs.clear()
    _log.clear()


def install():
    if "ray" in sys.modules and getattr(sys.modules["ray"], "__vf_double__", False):
        return sys.modules["ray"]
    if "resonaate" in sys.modules:
        raise RuntimeError("raydouble.install() must be called before resonaate is imported")
    m = types.ModuleType("ray")
    m.__vf_double__ = True
    for name in ("remote", "put", "get", "wait", "init", "is_initialized", "shutdown", "timeline",
                 "ObjectRef"):
        setattr(m, name, globals()[name])
    exc = types.ModuleType("ray.exceptions")
    exc.RayTaskError = RayTaskError
    m.exceptions = exc
    sys.modules["ray"] = m
    sys.modules["ray.exceptions"] = exc
    return m
