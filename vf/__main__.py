import sys

from vf.runner import main

sys.exit(main())
