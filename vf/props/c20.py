"""C20 - Lambert solutions and orbit determination reproduce the arc they were given."""

from __future__ import annotations

import math
from datetime import timedelta

import numpy as np
from hypothesis import strategies as st

from vf import scenario_kit as kit  # (Ray double first: the IOD path talks to the shared database)
from vf.oracles import geodesy, kepler
from vf.runner import Prop, Violation
from vf.strategies import orbits as so
from vf.strategies.instants import eop_instants, iso, parse

PI, TWOPI = math.pi, 2 * math.pi

PROP = Prop(
    "C20",
    rule=(
        "lambert_arc: Hypothesis bound orbits (e <= 0.7, any inclination incl. retrograde), start anomaly, transfer angle in "
        "(2,178) U (182,358) deg, time of flight from the independent Kepler oracle (< one period), true short/long sense; both "
        "solvers; arc_grid: the same check on a regular lattice over (e, start anomaly, transfer angle) with seed-dependent offsets "
        "(8x12x60 quick, 16x24x180 thorough), other elements random. radar_inversion: site, target above the horizon at az/el/range, whole-second epoch incl. second != 0. lambert_iod: "
        "near-circular orbit (e <= 0.01), two noise-free radar observations 5%..39.5% of a period apart from sites under the target, "
        "stored the way the engine stores them, plus 0-3 earlier stored observations of the same target inside the window. Non-trivial = transfer angle > 180 deg, e > 0.3, or separation > 30% of the period; "
        "distinct by rounded inputs."
    ),
    assumptions=[
        "tolerances: Lambert end-point velocities 3e-7 km/s (universal) / 3e-4 km/s (Battin), arc miss 20*tof*that (calibrated, see check); inversion 1e-6 km; IOD 1e-3 km / 1e-6 km/s (universal) and the Battin velocity tolerance for Battin",
        "IOD sites are placed under the target (zenith) at each observation time so that both observations are physically possible",
    ],
)
PROP.selftest(kepler.selftest)


def _arc_cases():
    dnu = st.one_of(st.floats(math.radians(2), math.radians(178)), st.floats(math.radians(182), math.radians(358)),
                    st.sampled_from([math.radians(x) for x in (2, 90, 178, 182, 270, 358)]))
    return st.builds(lambda el, d: {**el, "dnu": d}, so.elements(e_cap=0.7, min_perigee_alt=200.0), dnu)


@PROP.clause("lambert_arc", strategy=_arc_cases, quick=2500, thorough=100000, shards=4)
def lambert_arc(c, rec):
    """universal-variable and Battin solvers: propagating (r1, v1_returned) for the time of flight arrives at (r2, v2_returned)"""
    _check_arc(c, rec)


@PROP.clause("arc_grid", quick=5760, thorough=69120, shards=16)
def arc_grid(c, rec):
    """the same oracle on a regular (eccentricity x start anomaly x transfer angle) lattice, so that thin bands of the domain are hit by construction"""
    _check_arc(c, rec)


@PROP.sweep("arc_grid")
def arc_grid_cases(ctx):
    # lattice resolution from the budget: quick 8 x 12 x 60, thorough 16 x 24 x 180; one seed-dependent offset per axis
    big = ctx["n"] * ctx["nshards"] > 20000
    ne, nn, nd = (16, 24, 180) if big else (8, 12, 60)
    rng = np.random.default_rng(ctx["seed"] % 2**32)
    k = 0
    for ie in range(ne):
        e = 0.7 * (ie + float(rng.random())) / ne
        for i_n in range(nn):
            nu = TWOPI * (i_n + float(rng.random())) / nn
            for i_d in range(nd):
                k += 1
                if k % ctx["nshards"] != ctx["shard"]:
                    continue
                half = nd // 2
                j = i_d % half
                lo = math.radians(2) if i_d < half else math.radians(182)
                dnu = lo + math.radians(176) * (j + float(rng.random())) / half
                rp = 6378.0 + 200.0 + 30000.0 * float(rng.random()) ** 2
                yield {"a": rp / (1.0 - e), "e": e, "i": PI * float(rng.random()), "raan": TWOPI * float(rng.random()),
                       "argp": TWOPI * float(rng.random()), "nu": nu, "dnu": dnu}


def _check_arc(c, rec):
    from resonaate.physics.orbit_determination.lambert import lambertBattin, lambertUniversal

    a, e, dnu = c["a"], c["e"], c["dnu"]
    s1 = kepler.coe2rv(a, e, c["i"], c["raan"], c["argp"], c["nu"])
    nu2 = c["nu"] + dnu
    s2 = kepler.coe2rv(a, e, c["i"], c["raan"], c["argp"], nu2)
    e1, e2 = kepler.E_from_nu(c["nu"], e), kepler.E_from_nu(nu2, e)
    m1, m2 = e1 - e * math.sin(e1), e2 - e * math.sin(e2)
    n = math.sqrt(kepler.MU / a**3)
    tof = ((m2 - m1) % TWOPI) / n
    if tof <= 1.0:
        from vf.runner import Skip

        raise Skip("time of flight below 1 s")
    sense = 1 if dnu < PI else -1
    if dnu > PI or e > 0.3:
        rec.nontrivial([round(a, -2), round(e, 2), round(c["i"], 1), round(c["nu"], 1), round(dnu, 2)])
    rec.label("long_way" if sense < 0 else "short_way")
    chk = kepler.propagate(s1, tof)
    if np.linalg.norm(chk[:3] - s2[:3]) > 1e-6:
        from vf.runner import HarnessError

        raise HarnessError(f"oracle arc inconsistent: {np.linalg.norm(chk[:3] - s2[:3])}")
    for name, solver in (("universal", lambertUniversal), ("battin", lambertBattin)):
        v1, v2 = solver(s1[:3].copy(), s2[:3].copy(), tof, sense)
        v1, v2 = np.asarray(v1, float), np.asarray(v2, float)
        if not (np.all(np.isfinite(v1)) and np.all(np.isfinite(v2))):
            raise Violation("lambert_nan:" + name, f"{name} solver returned non-finite velocities for a={a!r}, e={e!r}, i={c['i']!r}, nu1={c['nu']!r}, dnu={dnu!r}, tof={tof!r}")
        end = kepler.propagate(np.concatenate([s1[:3], v1]), tof)
        dp = float(np.linalg.norm(end[:3] - s2[:3]))
        dv = float(np.linalg.norm(end[3:] - v2))
        d1 = max(float(np.linalg.norm(v1 - s1[3:])), float(np.linalg.norm(v2 - s2[3:])))
        rec.err(f"velocity_error_kms:{name}", d1)
        rec.err(f"arc_miss_per_tof_vtol:{name}", dp / (tof * VTOL[name]))
        # Calibration (4e4 arcs on the unchanged tree): worst end-point velocity error 2.6e-9 km/s (universal) and 3.0e-6 km/s
        # (Battin, convergence tolerance 1.48e-8 on its own variable); the arc miss distance is at most 16.3 * tof * (velocity
        # error) (nearly full revolutions of eccentric orbits).  Tolerances are 100x those; structural mutants give >= 1e-2 km/s.
        vt = VTOL[name]
        if d1 > vt:
            raise Violation("lambert_velocity:" + name, f"{name}: returned end-point velocities differ from the generating orbit's by {d1:.3e} km/s (tol {vt:.0e}); a={a!r}, e={e!r}, i={c['i']!r}, raan={c['raan']!r}, argp={c['argp']!r}, nu1={c['nu']!r}, dnu={dnu!r}, tof={tof!r}, sense={sense}")
        if dp > 1e-6 + 20 * tof * vt or dv > 20 * vt:
            raise Violation("lambert_arc:" + name, f"{name}: propagating r1 with the returned v1 for tof={tof!r}s misses r2 by {dp:.3e} km and the returned v2 by {dv:.3e} km/s (a={a!r}, e={e!r}, i={c['i']!r}, nu1={c['nu']!r}, dnu={dnu!r}, sense={sense})")


VTOL = {"universal": 3e-7, "battin": 3e-4}


# ------------------------------------------------------------------------------------------------
def _site_target():
    return st.builds(
        lambda t, lat, lon, alt, az, el, rho: {"t": iso(t), "lat": lat, "lon": lon, "alt": alt, "az": az, "el": el, "rho": rho},
        eop_instants(margin_days=2), st.floats(-1.4, 1.4), st.floats(-PI, PI), st.floats(0.0, 4.0),
        st.one_of(st.floats(0, TWOPI, exclude_max=True), st.sampled_from([0.0, 1e-9, PI])), st.floats(0.02, 1.55),
        st.one_of(st.floats(300.0, 45000.0), st.sampled_from([400.0, 36000.0])))


def _radar_measurement():
    from resonaate.physics.measurements import Measurement

    return Measurement.fromMeasurementLabels(["azimuth_rad", "elevation_rad", "range_km", "range_rate_km_p_sec"],
                                             np.diag([1e-10, 1e-10, 1e-8, 1e-10]))


def _truth_from_site(c, when):
    from resonaate.physics.transforms.methods import ecef2eci, lla2ecef, sez2ecef

    site = lla2ecef(np.array([c["lat"], c["lon"], c["alt"]]))
    sez = np.array([-c["rho"] * math.cos(c["el"]) * math.cos(c["az"]), c["rho"] * math.cos(c["el"]) * math.sin(c["az"]),
                    c["rho"] * math.sin(c["el"]), 0.3, -0.2, 0.1])
    tgt = ecef2eci(site + sez2ecef(sez, c["lat"], c["lon"]), when)
    sensor = ecef2eci(site, when)
    return sensor, tgt


@PROP.clause("radar_inversion", strategy=_site_target, quick=1500, thorough=60000, shards=4)
def radar_inversion(c, rec):
    """radarObs2eciPosition(observation built from the truth, noise off) returns the truth position"""
    from resonaate.data.observation import Observation
    from resonaate.physics.time.stardate import datetimeToJulianDate
    from resonaate.physics.transforms.methods import radarObs2eciPosition

    when = parse(c["t"])
    sensor, tgt = _truth_from_site(c, when)
    if when.second:
        rec.nontrivial([c["t"], round(c["az"], 2), round(c["el"], 2)])
    obs = Observation.fromMeasurement(epoch_jd=datetimeToJulianDate(when), target_id=1, tgt_eci_state=tgt, sensor_id=2,
                                      sensor_eci=sensor, sensor_type="Radar", measurement=_radar_measurement(), noisy=False)
    # the measurement itself equals the independent topocentric geometry
    from resonaate.physics.transforms.methods import eci2ecef

    rng, az, el = geodesy.razel(eci2ecef(tgt, when)[:3] - eci2ecef(sensor, when)[:3], c["lat"], c["lon"])
    sep = math.hypot((obs.azimuth_rad - az + PI) % TWOPI - PI, 0) * math.cos(el) + abs(obs.elevation_rad - el)
    if abs(obs.range_km - rng) > 1e-7 or sep > 1e-6:
        raise Violation("measurement_geometry", f"noise-free measurement (az={obs.azimuth_rad!r}, el={obs.elevation_rad!r}, rho={obs.range_km!r}) != geometry ({az!r}, {el!r}, {rng!r}) at {c['t']}")
    pos = radarObs2eciPosition(obs)
    d = float(np.linalg.norm(pos - tgt[:3]))
    rec.err("inversion_km", d)
    if d > 1e-6:
        raise Violation("radar_inversion", f"radarObs2eciPosition is {d:.3e} km away from the target the observation was generated from (epoch {c['t']}, az={c['az']!r}, el={c['el']!r}, range={c['rho']!r})")


# ------------------------------------------------------------------------------------------------
def _iod_cases():
    return st.builds(
        lambda t, el, frac, method, extra, det: {"t": iso(t), **el, "frac": frac, "method": method, "extra": extra, "det_on_first": det},
        eop_instants(margin_days=3), so.elements(e_cap=0.01, min_perigee_alt=300.0, a_min=6800.0, a_max=45000.0),
        st.one_of(st.floats(0.05, 0.395), st.sampled_from([0.1, 0.25, 0.34, 0.36, 0.38, 0.395])),
        st.sampled_from(["lambert_universal", "lambert_battin"]),
        # earlier stored observations of the same target inside the window (seconds before the last stored one), any insertion order
        st.lists(st.integers(30, 570), max_size=3, unique=True),
        # the look-back window opens at the detection time: before every stored observation, or exactly at the epoch of the stored
        # observation (the estimate agent's flow: the maneuver is flagged by the observation that is then used for IOD)
        st.booleans())


@PROP.clause("lambert_iod", strategy=_iod_cases, quick=300, thorough=8000, shards=8)
def lambert_iod(c, rec):
    """LambertIOD fed with two noise-free radar observations < 40% of a period apart returns convergence and the orbit's state"""
    from resonaate.data.agent import AgentModel
    from resonaate.data.epoch import Epoch
    from resonaate.data.observation import Observation
    from resonaate.data import getDBConnection
    from resonaate.estimation.initial_orbit_determination import LambertIOD
    from resonaate.physics.time.stardate import ScenarioTime, datetimeToJulianDate
    from resonaate.physics.transforms.methods import ecef2eci, eci2ecef, lla2ecef
    from resonaate.scenario.config.estimation_config import InitialOrbitDeterminationConfig

    a, e = c["a"], c["e"]
    period = kepler.period(a)
    dt = max(60, int(round(c["frac"] * period)))
    if dt >= 0.4 * period:
        dt = int(0.399 * period)
    t0 = parse(c["t"])
    t1 = t0 + timedelta(seconds=600)
    t2 = t1 + timedelta(seconds=dt)
    s1 = kepler.coe2rv(a, e, c["i"], c["raan"], c["argp"], c["nu"])
    s2 = kepler.propagate(s1, dt)
    if dt / period > 0.3:
        rec.nontrivial([round(a, -2), round(e, 4), round(c["i"], 1), round(dt / period, 3), c["method"]])
    rec.label("frac>0.354" if dt / period > 0.354 else "frac<=0.354")
    kit.fresh_db()
    db = getDBConnection()
    jd0, jd1, jd2 = (datetimeToJulianDate(t) for t in (t0, t1, t2))
    if c.get("det_on_first"):
        jd1 = ScenarioTime(600.0).convertToJulianDate(jd0)  # the stored observation carries exactly the Julian date the window opens at
        rec.label("window_opens_on_stored_observation")
    db.insertData(Epoch(julian_date=jd0, timestampISO=t0.isoformat(timespec="microseconds")),
                  Epoch(julian_date=jd1, timestampISO=t1.isoformat(timespec="microseconds")),
                  Epoch(julian_date=jd2, timestampISO=t2.isoformat(timespec="microseconds")),
                  AgentModel(unique_id=4001, name="tgt"), AgentModel(unique_id=5001, name="radar1"), AgentModel(unique_id=5002, name="radar2"))
    meas = _radar_measurement()

    def observe(state, when, sid, jd=None):
        # site on the ground under the target (target at the zenith, slightly displaced)
        ecef = eci2ecef(state, when)
        lat, lon, _alt = geodesy.ecef2lla(ecef[:3], 6378.1363, 0.081819221456**2)
        site = lla2ecef(np.array([lat * 0.999 + 0.001, lon + 0.002, 0.05]))
        sensor = ecef2eci(site, when)
        return Observation.fromMeasurement(epoch_jd=datetimeToJulianDate(when) if jd is None else jd, target_id=4001, tgt_eci_state=state, sensor_id=sid,
                                           sensor_eci=sensor, sensor_type="Radar", measurement=meas, noisy=False)

    ob1 = observe(s1, t1, 5001, jd1)
    ob2 = observe(s2, t2, 5002)
    stored = [ob1]
    for back in c.get("extra", []):
        te = t1 - timedelta(seconds=back)
        db.insertData(Epoch(julian_date=datetimeToJulianDate(te), timestampISO=te.isoformat(timespec="microseconds")))
        stored.append(observe(kepler.propagate(s1, -float(back)), te, 5001))
    rec.label(f"stored_observations:{len(stored)}")
    if len(stored) > 1 and sum(c["extra"]) % 2:
        stored.reverse()  # insertion order is not chronological order
    db.insertData(*stored)
    iod = LambertIOD.fromConfig(InitialOrbitDeterminationConfig(name=c["method"], minimum_observation_spacing=60), 4001, jd0)
    sol = iod.determineNewEstimateState([ob2], ScenarioTime(600.0 if c.get("det_on_first") else 0.0), ScenarioTime(600.0 + dt))
    if not sol.convergence:
        raise Violation("iod_rejected", f"LambertIOD refused two noise-free radar observations {dt}s = {dt / period:.4f} of a period apart (a={a!r}, e={e!r}): '{sol.message}'")
    got = np.asarray(sol.state_vector, dtype=float)
    dp = float(np.linalg.norm(got[:3] - s2[:3]))
    dv = float(np.linalg.norm(got[3:] - s2[3:]))
    rec.err("iod_pos_km", dp)
    rec.err("iod_vel_kms", dv)
    # the IOD forms the time of flight from two Julian dates (resolution 4e-5 s): dv <= |v| * 1e-4 s / dt on top of the solver's own error
    vtol = (1e-6 if c["method"] == "lambert_universal" else VTOL["battin"]) + 8.0 * 1e-4 / dt
    if dp > 1e-3 or dv > vtol:
        raise Violation("iod_state", f"LambertIOD({c['method']}) state differs from the orbit by {dp:.3e} km, {dv:.3e} km/s (a={a!r}, e={e!r}, i={c['i']!r}, dt={dt}s = {dt / period:.4f} T)")
