"""C18 - multiple-model estimation keeps valid probabilities and moment-matched output."""

from __future__ import annotations

import math

import numpy as np
from hypothesis import strategies as st

from vf.props.c06 import _LinearDynamics, _Obs
from vf.runner import Prop, Violation

PROP = Prop(
    "C18",
    rule=(
        "Hypothesis histories over the real StaticMultipleModel / GeneralizedPseudoBayesian1 objects (built through the real "
        "configuration factory; post-initialize state installed directly: 2..30 real UKFs on linear dynamics with distinct hypothesis "
        "states, uniform weights): rules predict / update(observations) / update([]) until closure, with observations whose "
        "innovations range from consistent with one model to absurd (likelihood underflow for all, for all but one, ties); prune "
        "thresholds and convergence percentages from the configuration model's admissible ranges. Non-trivial = history containing an "
        "underflow step or a prune that removes >= 2 models; distinct by (kind, models, thresholds, per-step classification)."
    ),
    assumptions=[
        "Bayes reference in the log domain (log-sum-exp) from each model's own innovation and innovation covariance (the per-model "
        "UKF update is C06's subject); compared when the total unnormalised mass is above the code's zero-mass threshold (1e-15), "
        "below it the documented uniform reset is the accepted outcome",
        "pruning/closure reference follows the documented algorithm (Nastasi Alg. 4.3/4.4): prune weights below the threshold keeping "
        "at least one model, close when one model remains or one model exceeds the convergence percentage and the NIS gate passes",
    ],
)


@st.composite
def _histories(draw):
    kind = draw(st.sampled_from(["smm", "smm", "gpb1"]))
    nm = draw(st.one_of(st.integers(2, 6), st.integers(2, 30)))
    n = 4
    spread = draw(st.sampled_from([0.5, 3.0, 30.0, 100.0]))
    hyp = [[draw(st.floats(-1, 1)) * spread for _ in range(n)] for _ in range(nm)]
    thr = draw(st.sampled_from([1e-20, 1e-6, 1e-3, 0.05, 0.3]))
    pct = draw(st.sampled_from([0.6, 0.9, 0.997, 0.9999]))
    steps = []
    for _ in range(draw(st.integers(1, 6))):
        op = draw(st.sampled_from(["update", "update", "update", "empty"]))
        m = draw(st.integers(1, 3))
        steps.append({"op": op, "m": m, "which": draw(st.integers(0, nm - 1)), "scale": draw(st.sampled_from([0.0, 0.3, 1.0, 3.0, 3.0, 8.0, 40.0, 2000.0])),
                      "dir": [draw(st.floats(-1, 1)) for _ in range(3)], "tie": draw(st.booleans()), "rlog": draw(st.sampled_from([-2.0, 0.0, 1.0, -10.0])),
                      # several sensors reporting in the same step: the innovation covariance is stacked (dimension nobs*m), and with
                      # precise sensors its determinant leaves the floating-point range although every entry is ordinary
                      "nobs": draw(st.sampled_from([1, 1, 1, 1, 3, 12, 30]))})
    # a third of the cases at orbital magnitudes: states ~4e4 with ~0.1 m sigmas, where algebraically equal covariance formulas
    # differ by catastrophic cancellation
    orbital = draw(st.sampled_from([False, False, True]))
    return {"kind": kind, "nm": nm, "hyp": hyp, "thr": thr, "pct": pct, "steps": steps, "alpha": draw(st.sampled_from([1.0, 0.5])), "orbital": orbital}


def _build(c):
    from resonaate.estimation import adaptiveEstimationFactory
    from resonaate.estimation.kalman.unscented_kalman_filter import UnscentedKalmanFilter
    from resonaate.estimation.maneuver_detection import StandardNis
    from resonaate.physics.time.stardate import ScenarioTime
    from resonaate.scenario.config import constructFromUnion
    from resonaate.scenario.config.estimation_config import AdaptiveEstimationConfig

    n = 4
    f = np.eye(n) + 0.01 * np.diag(np.ones(n - 1), 1)
    ps = 1e-8 if c.get("orbital") else 1.0
    off = np.array([42164.0, -7000.0, 3.07, 1.5]) if c.get("orbital") else np.zeros(n)
    p0 = ps * np.diag([1.0, 1.0, 0.1, 0.1])
    q = ps * 1e-4 * np.eye(n)
    nominal = UnscentedKalmanFilter(77, ScenarioTime(0.0), off.copy(), p0, _LinearDynamics(f), q, maneuver_detection=StandardNis(0.05),
                                    adaptive_estimation=True, alpha=c["alpha"])
    nominal.maneuver_detection.metric = 1.0
    cfg = constructFromUnion(AdaptiveEstimationConfig, {"name": c["kind"], "prune_threshold": c["thr"], "prune_percentage": c["pct"]})
    mm = adaptiveEstimationFactory(cfg, nominal, ScenarioTime(60.0))
    # state that initialize() leaves behind (hypothesis generation through Lambert / the database is C20's subject)
    mm.num_models = c["nm"]
    mm.mmae_antecedent_time = ScenarioTime(0.0)
    mm.models = mm._createModels(off + math.sqrt(ps) * np.array(c["hyp"], dtype=float))
    mm.model_likelihoods = np.ones(c["nm"])
    mm.model_weights = np.ones(c["nm"]) / c["nm"]
    mm.mode_probabilities = np.ones(c["nm"]) / c["nm"]
    return mm, f


def _logsumexp(v):
    mx = np.max(v)
    if not np.isfinite(mx):
        return mx
    return mx + math.log(np.sum(np.exp(v - mx)))


def _check_mixture(mm, rec, where):
    from resonaate.estimation.sequential_filter import FilterFlag

    w = np.asarray(mm.model_weights, dtype=float)
    if len(mm.models) < 1:
        raise Violation("no_model", f"{where}: no model left")
    if len(w) != len(mm.models) or mm.num_models != len(mm.models):
        raise Violation("bookkeeping", f"{where}: {len(mm.models)} models, {len(w)} weights, num_models={mm.num_models}")
    if not np.all(np.isfinite(w)) or np.any(w < 0) or abs(w.sum() - 1.0) > 1e-12:
        raise Violation("weights_invalid", f"{where}: model probabilities {w.tolist()} (sum {w.sum()!r})")
    xs = np.array([m.est_x for m in mm.models])
    ps = np.array([m.est_p for m in mm.models])
    mean = w @ xs
    cov = sum(wi * (pi + np.outer(xi - mean, xi - mean)) for wi, xi, pi in zip(w, xs, ps))
    scale = 1.0 + float(np.abs(xs).max())
    if float(np.abs(mm.est_x - mean).max()) > 1e-10 * scale:
        raise Violation("combined_mean", f"{where}: combined estimate {np.asarray(mm.est_x).tolist()} != probability-weighted mean {mean.tolist()}")
    if float(np.abs(mm.est_p - cov).max()) > 1e-9 * (1.0 + float(np.abs(cov).max())):
        raise Violation("combined_covariance", f"{where}: combined covariance is not the moment-matched mixture covariance (max diff {np.abs(mm.est_p - cov).max():.3e})")
    if float(np.abs(mm.est_p - mm.est_p.T).max()) > 1e-12 * (1.0 + float(np.abs(cov).max())):
        raise Violation("combined_symmetry", f"{where}: combined covariance not symmetric")
    # a mixture of positive semi-definite covariances is positive semi-definite; what the models themselves lost (a UKF update with a
    # nearly singular stacked innovation covariance, C06's subject) is not charged to the mixture
    own = min(0.0, min(float(np.linalg.eigvalsh((pi + pi.T) / 2).min()) for pi in ps))
    if own < 0:
        rec.label("a_model_covariance_is_indefinite")
    if float(np.linalg.eigvalsh((mm.est_p + mm.est_p.T) / 2).min()) < own * (1 + 1e-6) - 1e-10 * (1.0 + float(np.abs(cov).max())):
        raise Violation("combined_psd", f"{where}: combined covariance not positive semi-definite (lowest eigenvalue {np.linalg.eigvalsh((mm.est_p + mm.est_p.T) / 2).min():.3e}, lowest of any model {own:.3e})")
    closed = FilterFlag.ADAPTIVE_ESTIMATION_CLOSE in mm.flags
    if closed:
        cf = mm.converged_filter
        if cf is None:
            raise Violation("closure_filter", f"{where}: estimation closed but no filter handed back")
        if float(np.abs(cf.est_x - mm.est_x).max()) > 0 or float(np.abs(cf.est_p - mm.est_p).max()) > 0:
            raise Violation("closure_state", f"{where}: the filter handed back does not carry the combined estimate/covariance")
        # the filter handed back replaces the nominal filter and is propagated from ITS time at the next step: it has to stand at
        # the epoch (and on the target) of the estimate it carries
        if cf.time != mm.time or cf.target_id != mm.target_id:
            raise Violation("closure_epoch", f"{where}: the filter handed back stands at time {cf.time!r} for target {cf.target_id}, the estimate it carries belongs to time {mm.time!r}, target {mm.target_id}")
        if len(mm.models) == 1:
            only = mm.models[0]
            if getattr(only, "time", cf.time) != cf.time:
                raise Violation("closure_epoch", f"{where}: the filter handed back stands at time {cf.time!r}, the surviving model at {only.time!r}")
            if float(np.abs(cf.est_x - only.est_x).max()) > 1e-12 * scale or float(np.abs(cf.est_p - only.est_p).max()) > 1e-12 * (1 + float(np.abs(only.est_p).max())):
                raise Violation("closure_survivor", f"{where}: one model survives but the filter handed back differs from it")
        if FilterFlag.ADAPTIVE_ESTIMATION_START in mm.flags:
            raise Violation("closure_flags", f"{where}: START flag still set after closure")
    return closed


@PROP.clause("history", strategy=_histories, quick=400, thorough=12000, shards=16)
def history(c, rec):
    """real SMM/GPB1 objects over generated predict/update histories: valid probabilities, Bayes' rule (log-domain reference), >= 1 model, moment-matched output, closure"""
    from resonaate.physics.statistics import oneSidedChiSquareTest
    from resonaate.physics.time.stardate import ScenarioTime

    mm, _f = _build(c)
    kind = c["kind"]
    t = 0.0
    underflow = False
    big_prune = False
    trace = []
    for k, stp in enumerate(c["steps"]):
        t += 60.0
        if k and c.get("through_object_store", True):
            # between steps the estimate agent's filter travels through the Ray object store; what comes back is a copy whose
            # NumPy arrays are read-only (same serialisation as the in-process double uses for every put/get)
            from vf import raydouble

            mm = raydouble._loads(raydouble._dumps(mm))
            rec.label("filter_through_object_store")
        mm.predict(ScenarioTime(t))
        w_prior = np.asarray(mm.model_weights, dtype=float).copy()
        # the combined prediction is the moment-matched mixture of the models' predictions
        pxs = np.array([m_.pred_x for m_ in mm.models])
        pmean = w_prior @ pxs
        pcov = sum(wi * (np.asarray(m_.pred_p) + np.outer(xi - pmean, xi - pmean)) for wi, xi, m_ in zip(w_prior, pxs, mm.models))
        if float(np.abs(np.asarray(mm.pred_x) - pmean).max()) > 1e-10 * (1.0 + float(np.abs(pxs).max())):
            raise Violation("combined_prediction", f"step {k}: combined predicted state is not the probability-weighted mean of the models' predictions")
        # (differences of nearby large states: rounding is ~eps * |x| * spread, far below the covariance itself)
        ptol = 1e-9 * float(np.abs(pcov).max()) + 64 * np.finfo(float).eps * float(np.abs(pxs).max()) * (1e-300 + float(np.abs(pxs - pmean).max()))
        dpc = float(np.abs(np.asarray(mm.pred_p) - pcov).max())
        rec.err("combined_pred_cov_rel", dpc / float(np.abs(pcov).max()))
        if dpc > ptol or float(np.linalg.eigvalsh((np.asarray(mm.pred_p) + np.asarray(mm.pred_p).T) / 2).min()) < -ptol:
            raise Violation("combined_prediction", f"step {k}: combined predicted covariance differs from the moment-matched mixture covariance by {dpc:.3e} (largest entry {np.abs(pcov).max():.3e}, states ~{np.abs(pxs).max():.1e})")
        rec.label("orbital_magnitudes" if c.get("orbital") else "toy_magnitudes")
        mu_prior = np.asarray(mm.mode_probabilities, dtype=float).copy()
        n_before = len(mm.models)
        if stp["op"] == "empty":
            mm.update([])
            trace.append("empty")
            if not np.allclose(mm.model_weights, w_prior, rtol=0, atol=0) and len(mm.models) == n_before:
                raise Violation("empty_update_weights", f"step {k}: update([]) changed the model probabilities {w_prior.tolist()} -> {np.asarray(mm.model_weights).tolist()}")
            if _check_mixture(mm, rec, f"step {k} (no observations)"):
                break
            continue
        m = stp["m"]
        h = np.zeros((m, 4))
        for i in range(m):
            h[i, i] = 1.0
        # (identical simultaneous observations make the stacked innovation covariance singular up to R: with R/P below ~1e-6 the
        # models' own UKF updates lose positive definiteness, which is C06's numerical limit, not the subject here)
        rlog = stp["rlog"] if stp.get("nobs", 1) == 1 else max(stp["rlog"], -2.0)
        r = (10.0 ** rlog) * 0.01 * np.eye(m)
        j = stp["which"] % len(mm.models)
        target = h @ mm.models[j].pred_x
        if stp["tie"] and len(mm.models) >= 2:
            target = 0.5 * (target + h @ mm.models[(j + 1) % len(mm.models)].pred_x)
        d = np.array(stp["dir"][:m])
        d = d / (np.linalg.norm(d) + 1e-12)
        z = target + stp["scale"] * math.sqrt(r[0, 0] + 1.0) * d
        nobs = stp.get("nobs", 1)
        mm.update([_Obs(h, r, z) for _ in range(nobs)])
        if nobs > 1:
            rec.label(f"simultaneous_observations:{nobs}")
        # ---- reference ---------------------------------------------------------------------------
        logl = []
        conds = [0.0]
        for mod in mm.models if len(mm.models) == n_before else []:
            nu = np.asarray(mod.innovation, dtype=float)
            s = np.asarray(mod.innov_cvr, dtype=float)
            sign, logdet = np.linalg.slogdet(s)
            logl.append(-0.5 * float(nu @ np.linalg.solve(s, nu)) - 0.5 * (len(nu) * math.log(2 * math.pi) + logdet))
            # rounding of the quadratic form grows with the condition number of the stacked innovation covariance; the
            # probabilities inherit it (d w ~ d log-likelihood)
            conds.append(float(np.linalg.cond(s)) * max(1.0, abs(2 * logl[-1])))
            if logdet < -700 or logdet > 700:
                rec.label("determinant_outside_float_range")
        cls = "consistent" if stp["scale"] <= 3 else ("absurd" if stp["scale"] >= 2000 else "selective")
        trace.append(cls)
        closed = _check_mixture(mm, rec, f"step {k} ({cls})")
        w = np.asarray(mm.model_weights, dtype=float)
        if len(mm.models) == n_before and not closed:
            logl = np.array(logl)
            prior = w_prior if kind == "smm" else mu_prior
            with np.errstate(divide="ignore"):
                logpost = np.log(prior) + logl
            logmass = _logsumexp(logpost)
            if logmass < math.log(1e-15):
                underflow = True
                rec.label("mass_below_threshold")
                # documented reset: SMM sets the weights to uniform, GPB1 sets the likelihoods to one (weights = prior mode probabilities)
                reset = np.ones(n_before) / n_before if kind == "smm" else prior / prior.sum()
                ref_bayes = np.exp(logpost - logmass) if np.isfinite(logmass) else reset
                if not (np.allclose(w, reset, atol=1e-12) or np.allclose(w, ref_bayes, atol=1e-9 + 16 * np.finfo(float).eps * max(conds))):
                    raise Violation("underflow_outcome", f"step {k}: total likelihood mass underflows (log mass {logmass:.1f}); weights {w.tolist()} are neither the documented reset {reset.tolist()} nor Bayes' rule {ref_bayes.tolist()}")
            else:
                ref = np.exp(logpost - logmass)
                btol = 1e-9 + 16 * np.finfo(float).eps * max(conds)
                if btol > 1e-6:
                    rec.label("ill_conditioned_innovation_covariance")
                if float(np.abs(w - ref).max()) > btol:
                    raise Violation("bayes_rule", f"step {k}: model probabilities {w.tolist()} != prior x Gaussian likelihood, renormalised {ref.tolist()} (prior {prior.tolist()})")
                if float(np.min(logl)) < -700:
                    underflow = True
                    rec.label("partial_underflow")
            if kind == "gpb1":
                nmod = len(mm.models)
                scale_ = 1.0 / (nmod - 1 + mm.mix_ratio)
                mix = np.full((nmod, nmod), scale_)
                np.fill_diagonal(mix, mm.mix_ratio * scale_)
                mu = np.asarray(mm.mode_probabilities, dtype=float)
                if abs(mu.sum() - 1.0) > 1e-12 or float(np.abs(mu - mix @ w).max()) > 1e-12:
                    raise Violation("gpb1_mixing", f"step {k}: mode probabilities {mu.tolist()} != mixing matrix x weights")
        elif len(mm.models) < n_before:
            removed = n_before - len(mm.models)
            if removed >= 2:
                big_prune = True
            rec.label("pruned")
            # pruning must not have removed a model whose posterior exceeds every survivor's by construction of the rule:
            # survivors' weights are renormalised and all >= threshold unless only one model is left
            if len(mm.models) > 1 and kind == "smm" and float(np.min(w)) < c["thr"] * 0.999 and not closed:
                raise Violation("prune_incomplete", f"step {k}: after pruning a surviving model has probability {np.min(w)!r} below the threshold {c['thr']!r}")
        if closed:
            rec.label("closed")
            # the closure decision: single model, or dominant model + NIS gate
            if len(mm.models) > 1 and kind == "smm":
                raise Violation("closure_models", f"step {k}: SMM closed with {len(mm.models)} models left")
            if kind == "gpb1":
                gate = bool(oneSidedChiSquareTest(mm.nis, 1 - c["pct"], m * stp.get("nobs", 1)))
                if not gate:
                    raise Violation("closure_gate", f"step {k}: GPB1 closed although the combined NIS {mm.nis!r} fails the gate")
            break
    if underflow or big_prune:
        rec.nontrivial([kind, c["nm"], c["thr"], c["pct"], tuple(trace)])
    rec.label(kind)
