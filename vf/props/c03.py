"""C03 - orbit propagation is composable, batch-consistent, Kepler-exact and conservative."""

from __future__ import annotations

import math
from datetime import timedelta

import numpy as np
from hypothesis import strategies as st

from vf import scenario_kit as kit  # noqa: F401  (Ray double first: scheduled events log through a Ray actor)
from vf.oracles import kepler
from vf.runner import Prop, Skip, Violation
from vf.strategies import orbits as so
from vf.strategies.instants import eop_instants, iso, parse

PROP = Prop(
    "C03",
    rule=(
        "Hypothesis: bound orbits a in [6600,50000] km, e <= 0.7 with perigee >= 200 km by construction, any inclination; duration "
        "log-uniform in [1 s, 1 day]; split point f*T with f in {tiny, 0.5, U, 1-tiny}; batch size 1..13; output grids of 1..8 "
        "times; both integrators offered by the configuration (RK45, DOP853); two-body and perturbed dynamics (geopotential degree "
        "<= 8, Sun/Moon, SRP, GR subsets); whole-second start-epoch shifts; in a third of the cases the dynamics object was used before "
        "for a propagation that ended with a finite burn still on / after an impulse. Non-trivial = batch >= 2, or split strictly inside "
        "(0,T), or grid >= 3 points; distinct by rounded (a, e, i, T, K, f)."
    ),
    assumptions=[
        "the integrators run with the simulator's own tolerances (rtol 1e-10, atol 1e-12); comparison tolerances are calibrated "
        "multiples of the observed integrator error and far below the effect of an index/epoch slip (>= km)",
        "closed-form Kepler oracle (self-tested against DOP853 at 1e-13) is the two-body reference",
    ],
)
PROP.selftest(kepler.selftest)

# Calibrated tolerances, per unit of scale = max(1, duration / 1 h) (evidence records the worst observed error on every run).
# Worst on the unchanged tree over ~3e3 cases: vs Kepler 7.5e-5 km / 8.8e-8 km/s (RK45, rtol 1e-10, 16 LEO revolutions);
# between two integrations of the same problem (composition, batch, grid, epoch split) 1.2e-5 km / 1.3e-8 km/s.
# Tolerances are >= 60x those; a stride slip in the batch layout or a sign slip in the epoch moves results by >= 0.1 km.
TOL = {"kepler": (5e-3, 5e-6), "bulk": (5e-3, 5e-6), "bulk_events": (5e-3, 5e-6), "sp_composition": (2e-3, 2e-6), "sp_epoch_split": (2e-3, 2e-6), "sp_batch": (2e-3, 2e-6)}
# perturbed arcs (up to 6 h, incl. shadow crossings): worst observed over ~1.5e3 cases 1.1e-4 km / 9e-8 km/s per scale unit; a one-day
# epoch slip moves a 2 h arc by >= 0.01 km
DEFAULT_TOL = (8e-4, 8e-7)


def _durations():
    return st.one_of(st.floats(0, 1).map(lambda u: math.exp(u * math.log(86400.0))), st.sampled_from([1.0, 60.0, 300.0, 3600.0, 86400.0]))


def _tb_cases():
    return st.builds(
        lambda el, t, f, k, grid, meth, pert, hist: {**el, "T": t, "f": f, "K": k, "grid": grid, "method": meth, "pert": pert, "history": hist},
        so.elements(e_cap=0.7, min_perigee_alt=200.0), _durations(),
        st.one_of(st.sampled_from([1e-6, 0.5, 1 - 1e-6]), st.floats(0.01, 0.99)),
        st.sampled_from([1, 2, 3, 5, 13]), st.lists(st.floats(0.01, 0.99), min_size=0, max_size=7),
        st.sampled_from(["RK45", "DOP853"]), st.lists(st.floats(-1, 1), min_size=6 * 12, max_size=6 * 12), st.sampled_from([0, 0, 0, 1, 1, 2]))


def _state(c):
    return kepler.coe2rv(c["a"], c["e"], c["i"], c["raan"], c["argp"], c["nu"])


def _cmp(label, got, ref, rec, scale, what):
    dp = float(np.linalg.norm(np.asarray(got)[:3] - np.asarray(ref)[:3]))
    dv = float(np.linalg.norm(np.asarray(got)[3:] - np.asarray(ref)[3:]))
    rec.err(label + "_pos_km", dp / scale)
    rec.err(label + "_vel_kms", dv / scale)
    pt, vt = TOL.get(label, DEFAULT_TOL)
    if dp > pt * scale or dv > vt * scale:
        raise Violation(label, f"{what}: |dr| = {dp:.3e} km, |dv| = {dv:.3e} km/s (tolerance {pt * scale:.1e} km, {vt * scale:.1e} km/s)")


def _earlier_use(dyn, c, x0, rec):
    """In a third of the cases the dynamics object has been used before, for a propagation with scheduled events that ended
    while a finite burn was still on (or right after an impulse): what a propagation returns must depend on its arguments,
    not on the object's history."""
    mode = c.get("history", 0)
    rec.label(("fresh_object", "used_before:burn_still_on", "used_before:impulse")[mode])
    if mode == 0:
        return
    from functools import partial

    from resonaate.dynamics.integration_events.finite_thrust import ScheduledFiniteBurn, eciBurn
    from resonaate.dynamics.integration_events.scheduled_impulse import ScheduledECIImpulse
    from resonaate.physics.time.stardate import ScenarioTime

    if mode == 1:
        ev = ScheduledFiniteBurn(ScenarioTime(10.0), ScenarioTime(500.0), partial(eciBurn, acc_vector=np.array([0.0, 2e-5, 0.0])), 1)
    else:
        ev = ScheduledECIImpulse(ScenarioTime(20.0), np.array([0.0, 0.01, 0.0]), 1)
    dyn.propagate(0.0, 60.0, x0.copy(), scheduled_events=[ev])


@PROP.clause("two_body", strategy=_tb_cases, quick=320, thorough=8000, shards=16)
def two_body(c, rec):
    """two-body: equals closed-form Kepler, conserves energy and angular momentum, composes over any split, batch and output-grid consistent"""
    from resonaate.dynamics.two_body import TwoBody

    x0 = _state(c)
    t_end = c["T"]
    k = c["K"]
    f = c["f"]
    dyn = TwoBody(method=c["method"])
    _earlier_use(dyn, c, x0, rec)
    scale = max(1.0, t_end / 3600.0)
    if k >= 2 or 0.001 < f < 0.999 or len(c["grid"]) >= 3:
        rec.nontrivial([round(c["a"], -2), round(c["e"], 2), round(c["i"], 1), round(math.log10(t_end), 1), k, round(f, 2), c["method"]])
    rec.label(c["method"])
    t0 = 120.0
    full = dyn.propagate(t0, t0 + t_end, x0.copy())
    if full.shape != (6,):
        raise Violation("shape", f"propagate of a single state returned shape {full.shape}")
    ref = kepler.propagate(x0, t_end)
    _cmp("kepler", full, ref, rec, scale, f"two-body propagation over {t_end!r}s vs closed-form Kepler (a={c['a']!r}, e={c['e']!r}, i={c['i']!r}, {c['method']})")
    de = abs(kepler.energy(full) - kepler.energy(x0)) / abs(kepler.energy(x0))
    dh = float(np.linalg.norm(kepler.ang_mom(full) - kepler.ang_mom(x0)) / np.linalg.norm(kepler.ang_mom(x0)))
    rec.err("energy_rel", de / scale)
    rec.err("angmom_rel", dh / scale)
    if de > 1e-8 * scale or dh > 1e-8 * scale:
        raise Violation("conservation", f"two-body propagation over {t_end!r}s changes energy by {de:.3e} and angular momentum by {dh:.3e} (relative)")
    # composition
    t1 = t0 + f * t_end
    if t0 < t1 < t0 + t_end:
        mid = dyn.propagate(t0, t1, x0.copy())
        two = dyn.propagate(t1, t0 + t_end, mid.copy())
        _cmp("composition", two, full, rec, scale, f"propagate(t0->t2) vs propagate(t1->t2) o propagate(t0->t1) with split at {f!r} of {t_end!r}s")
    # batch: K states at once vs one at a time (perturbed copies of the orbit, all bound and above the surface)
    if k >= 2:
        pert = np.array(c["pert"]).reshape(12, 6)[: k - 1]
        batch = [x0] + [x0 + p * np.array([5, 5, 5, 5e-3, 5e-3, 5e-3]) for p in pert]
        arr = np.column_stack(batch)
        # the (6, K) batch in the memory layouts callers produce: C order, Fortran order (np.array(states).T), a strided view
        layout = ("C", "F", "strided")[int(abs(c["pert"][0]) * 1e6) % 3]
        rec.label("batch_layout:" + layout)
        if layout == "F":
            arr_in = np.asfortranarray(arr)
        elif layout == "strided":
            wide = np.zeros((6, 2 * k))
            wide[:, ::2] = arr
            arr_in = wide[:, ::2]
        else:
            arr_in = arr.copy()
        out = dyn.propagate(t0, t0 + t_end, arr_in)
        if out.shape != (6, k):
            raise Violation("shape", f"batch propagate returned shape {out.shape} for input (6,{k})")
        for j in range(k):
            single = dyn.propagate(t0, t0 + t_end, batch[j].copy())
            _cmp("batch", out[:, j], single, rec, scale, f"column {j} of a batch of {k} vs the same state propagated alone over {t_end!r}s")
        # the same batch while a finite burn of constant inertial acceleration is on for the whole span (the filter propagates
        # its sigma points with the target's scheduled events): every column must equal that state propagated alone with the burn
        if 30.0 <= t_end <= 7200.0:
            from functools import partial

            from resonaate.dynamics.integration_events.finite_thrust import ScheduledFiniteBurn, eciBurn
            from resonaate.physics.time.stardate import ScenarioTime

            mkb = lambda: ScheduledFiniteBurn(ScenarioTime(t0 - 5.0), ScenarioTime(t0 + t_end + 5.0), partial(eciBurn, acc_vector=np.array([0.0, 1e-7, 0.0])), 1)  # noqa: E731  (<= 0.7 m/s in all: no orbit is lowered into the ground)
            out_b = TwoBody(method=c["method"]).propagate(t0, t0 + t_end, arr.copy(), scheduled_events=[mkb()])
            rec.label("batch_with_active_burn")
            for j in range(k):
                single_b = TwoBody(method=c["method"]).propagate(t0, t0 + t_end, batch[j].copy(), scheduled_events=[mkb()])
                _cmp("batch_burn", out_b[:, j], single_b, rec, scale, f"column {j} of a batch of {k} propagated with an active finite burn vs the same state alone with the burn ({t_end!r}s)")
    # output grid
    if c["grid"]:
        times = [t0] + sorted(t0 + g * t_end for g in c["grid"]) + [t0 + t_end]
        times = sorted(set(times))
        bulk = dyn.propagateBulk(times, x0.reshape(6, 1).copy())
        if bulk.shape != (6, 1, len(times) - 1):
            raise Violation("shape", f"propagateBulk returned shape {bulk.shape} for {len(times)} times")
        for idx, tt in enumerate(times[1:]):
            _cmp("bulk", bulk[:, 0, idx], kepler.propagate(x0, tt - t0), rec, scale, f"propagateBulk output at {tt - t0!r}s of {t_end!r}s vs Kepler")
        _cmp("bulk_vs_propagate", bulk[:, 0, -1], full, rec, scale, "last propagateBulk output vs propagate over the whole span")
        # the same with a scheduled impulse that falls exactly on one of the requested output times: every output column must
        # other than that instant's own must equal a separate propagate() call to that time with the same event
        if len(times) >= 4 and t_end >= 60.0:
            from resonaate.dynamics.integration_events.scheduled_impulse import ScheduledECIImpulse
            from resonaate.physics.time.stardate import ScenarioTime

            j_imp = 1 + (len(times) - 2) // 2
            mk = lambda: ScheduledECIImpulse(ScenarioTime(times[j_imp]), np.array([0.0, 0.01, 0.0]), 1)  # noqa: E731
            bulk_ev = dyn.propagateBulk(times, x0.reshape(6, 1).copy(), scheduled_events=[mk()])
            rec.label("bulk_with_impulse_on_output_time")
            for idx, tt in enumerate(times[1:]):
                if idx + 1 == j_imp:
                    # at the impulse instant itself the state is discontinuous and the two entry points legitimately differ in
                    # whether the returned state is the one just before or just after it (C03 says nothing about events)
                    continue
                single = dyn.propagate(t0, tt, x0.copy(), scheduled_events=[mk()])
                _cmp("bulk_event", bulk_ev[:, 0, idx], single, rec, scale, f"propagateBulk output {idx + 1} of {len(times) - 1} (at {tt - t0!r}s) with an impulse scheduled on output {j_imp} vs a separate propagate() to that time")

        # several scheduled events strictly between requested output times (the particle filter propagates its cloud through
        # propagateBulk with the target's planned maneuvers): an impulse in the first gap, and in the last gap a second impulse
        # or a short finite burn lying wholly between two output times. Every output equals a separate propagate() to that time.
        if len(times) >= 3 and t_end >= 60.0:
            from functools import partial

            from resonaate.dynamics.integration_events.finite_thrust import ScheduledFiniteBurn, eciBurn
            from resonaate.dynamics.integration_events.scheduled_impulse import ScheduledECIImpulse
            from resonaate.physics.time.stardate import ScenarioTime

            mode = ("two_impulses", "impulse_and_burn", "burn_between_outputs")[int(abs(c["grid"][0]) * 1e6) % 3]
            g0, g1 = times[-2], times[-1]
            b0, b1 = g0 + 0.4 * (g1 - g0), g0 + 0.4 * (g1 - g0) + min(60.0, 0.2 * (g1 - g0))

            def mk2():
                evs = []
                if mode != "burn_between_outputs":
                    evs.append(ScheduledECIImpulse(ScenarioTime(times[0] + 0.5 * (times[1] - times[0])), np.array([0.0, 2e-3, 1e-3]), 1))
                if mode == "two_impulses":
                    evs.append(ScheduledECIImpulse(ScenarioTime(g0 + 0.5 * (g1 - g0)), np.array([1e-3, 0.0, -2e-3]), 1))
                else:
                    evs.append(ScheduledFiniteBurn(ScenarioTime(b0), ScenarioTime(b1), partial(eciBurn, acc_vector=np.array([0.0, 1e-5, 0.0])), 1))
                return evs

            if b1 > b0 + 1e-3:
                rec.label("bulk_with_events_between_outputs:" + mode)
                bulk_e2 = TwoBody(method=c["method"]).propagateBulk(times, x0.reshape(6, 1).copy(), scheduled_events=mk2())
                if bulk_e2.shape != (6, 1, len(times) - 1):
                    raise Violation("shape", f"propagateBulk with {mode} returned shape {bulk_e2.shape} for {len(times)} times")
                for idx, tt in enumerate(times[1:]):
                    single = TwoBody(method=c["method"]).propagate(t0, tt, x0.copy(), scheduled_events=mk2())
                    _cmp("bulk_events", bulk_e2[:, 0, idx], single, rec, scale, f"propagateBulk output {idx + 1} of {len(times) - 1} (at {tt - t0!r}s of {t_end!r}s) with {mode} between the output times vs a separate propagate() to that time")


# ------------------------------------------------------------------------------------------------
def _sp_cases():
    def mk(t, el, dur, f, shift, deg, order_frac, bodies, srp, gr, meth, k, hist=0):
        return {"history": hist, "t": iso(t), **el, "T": dur, "f": f, "shift": shift, "deg": deg, "ord": int(round(order_frac * deg)), "bodies": bodies,
                "srp": srp, "gr": gr, "method": meth, "K": k}

    return st.builds(
        mk, eop_instants(margin_days=12), so.elements(e_cap=0.6, min_perigee_alt=300.0, a_max=45000.0),
        st.sampled_from([30.0, 120.0, 600.0, 1800.0, 1800.0, 7200.0, 21600.0]), st.floats(0.05, 0.95), st.sampled_from([1, 37, 60, 3600, 86400, 86400, 172807, 864000]),
        st.sampled_from([0, 2, 4, 8]), st.floats(0, 1), st.sampled_from([[], ["sun"], ["moon"], ["sun", "moon"], ["sun", "moon", "jupiter"]]),
        st.booleans(), st.booleans(), st.sampled_from(["RK45", "DOP853"]), st.sampled_from([1, 1, 2, 3]), st.sampled_from([0, 0, 0, 1, 1, 2]))


@PROP.clause("perturbed", strategy=_sp_cases, quick=64, thorough=1600, shards=16)
def perturbed(c, rec):
    """perturbed dynamics: composition, batch consistency, and dependence on the absolute epoch only (start date vs elapsed seconds)"""
    from resonaate.dynamics.special_perturbations import SpecialPerturbations
    from resonaate.physics.time.stardate import datetimeToJulianDate
    from resonaate.scenario.config.geopotential_config import GeopotentialConfig
    from resonaate.scenario.config.perturbations_config import PerturbationsConfig

    t = parse(c["t"])
    geo = GeopotentialConfig(model="egm96.txt", degree=c["deg"], order=c["ord"])
    per = PerturbationsConfig(third_bodies=c["bodies"], solar_radiation_pressure=c["srp"], general_relativity=c["gr"])
    x0 = _state(c)
    dur, f, k = c["T"], c["f"], c["K"]
    # solar radiation pressure switches off in the Earth's shadow: a discontinuous right-hand side whose crossing the adaptive
    # integrators resolve only to a step, so two integrations of the same arc differ by up to ~3e-4 km per hour (observed); 5x room
    scale = max(1.0, dur / 3600.0) * (5.0 if c["srp"] else 1.0)
    rec.label("elapsed>=1day" if c["shift"] >= 86400 else "elapsed<1day")
    rec.nontrivial([c["t"], round(c["a"], -2), round(c["e"], 2), dur, round(f, 2), c["shift"], c["deg"], tuple(c["bodies"]), c["srp"], c["gr"], k])
    rec.label(c["method"])
    dyn = SpecialPerturbations(datetimeToJulianDate(t), geo, per, 0.02, method=c["method"])
    _earlier_use(dyn, c, x0, rec)
    t0 = 60.0
    full = dyn.propagate(t0, t0 + dur, x0.copy())
    mid = dyn.propagate(t0, t0 + f * dur, x0.copy())
    two = dyn.propagate(t0 + f * dur, t0 + dur, mid.copy())
    _cmp("sp_composition", two, full, rec, scale, f"perturbed propagate(t0->t2) vs two legs split at {f!r} of {dur!r}s ({c['method']}, deg {c['deg']}, {c['bodies']}, srp={c['srp']}, gr={c['gr']})")
    # perturbations are small but present: the result must differ from pure two-body when something is switched on
    if c["deg"] >= 2 and dur >= 600:
        tb = kepler.propagate(x0, dur)
        if float(np.linalg.norm(full[:3] - tb[:3])) < 1e-7:
            raise Violation("sp_no_effect", "degree >= 2 geopotential configured but the trajectory equals the two-body one")
    # absolute epoch: start date shifted by whole seconds, elapsed seconds shifted the other way
    sh = c["shift"]
    dyn2 = SpecialPerturbations(datetimeToJulianDate(t - timedelta(seconds=sh)), geo, per, 0.02, method=c["method"])
    shifted = dyn2.propagate(t0 + sh, t0 + sh + dur, x0.copy())
    _cmp("sp_epoch_split", shifted, full, rec, scale, f"same absolute epoch split differently between start date and elapsed seconds (shift {sh}s at {c['t']})")
    # the same statement one level down, where no integrator tolerance blurs it: the acceleration of a state is a function of the
    # absolute epoch.  (The two splits give Julian dates that differ by up to 4e-5 s, i.e. 3e-9 rad of Earth rotation: 3e-14 km/s^2
    # on the oblateness term if the epoch were used as is - the reduction rounds it to the whole second, observed 1e-18; 1e-14 is allowed.  The Sun moves 1 deg per day: a term evaluated at the start epoch instead of
    # the current one differs by 1e-12 km/s^2 and more for shifts of a day.)
    for te in (t0, t0 + dur):
        a1 = np.asarray(dyn._differentialEquation(te, x0.copy(), check_collision=False), dtype=float)[3:]
        a2 = np.asarray(dyn2._differentialEquation(te + sh, x0.copy(), check_collision=False), dtype=float)[3:]
        da = float(np.linalg.norm(a1 - a2))
        rec.err("sp_epoch_split_acceleration_kms2", da)
        if da > 1e-14:
            raise Violation("sp_epoch_split_acceleration", f"acceleration of the same state at the same absolute epoch differs by {da:.3e} km/s^2 between start {c['t']} + {te}s and start-{sh}s + {te + sh}s (deg {c['deg']}, {c['bodies']}, srp={c['srp']}, gr={c['gr']})")
    if k >= 2:
        batch = [x0] + [x0 + np.array([3.0 * j, -2.0 * j, 1.0 * j, 1e-3 * j, 2e-3 * j, -1e-3 * j]) for j in range(1, k)]
        out = dyn.propagate(t0, t0 + dur, np.column_stack(batch).copy())
        for j in range(k):
            single = dyn.propagate(t0, t0 + dur, batch[j].copy())
            _cmp("sp_batch", out[:, j], single, rec, scale, f"column {j} of a perturbed batch of {k} vs the same state alone")


# ------------------------------------------------------------------------------------------------
# the same relation for dynamics built the way a scenario builds them (dynamicsFactory + the scenario clock): an agent that joins
# a running scenario when the clock reads tau propagates in the scenario's elapsed seconds
# ------------------------------------------------------------------------------------------------
def _factory_cases():
    def mk(t, el, dur, tau, deg, bodies, srp, meth, model):
        return {"t": iso(t), **el, "T": dur, "tau": tau, "deg": deg, "bodies": bodies, "srp": srp, "method": meth, "model": model}

    return st.builds(
        mk, eop_instants(margin_days=3), so.elements(e_cap=0.6, min_perigee_alt=300.0, a_max=45000.0), st.sampled_from([120.0, 600.0, 1800.0, 3600.0]),
        st.sampled_from([60, 300, 1800, 3600, 43200, 86400]), st.sampled_from([0, 2, 4, 8]), st.sampled_from([[], ["sun"], ["sun", "moon"]]),
        st.booleans(), st.sampled_from(["RK45", "DOP853"]), st.sampled_from(["special_perturbations", "special_perturbations", "two_body"]))


@PROP.clause("factory_epoch", strategy=_factory_cases, quick=60, thorough=1500, shards=8)
def factory_epoch(c, rec):
    """dynamicsFactory on a scenario clock that has already advanced by tau (agent added mid-run) vs on a fresh clock started tau later: same absolute epoch, same trajectory"""
    from resonaate.dynamics import dynamicsFactory
    from resonaate.scenario.clock import ScenarioClock
    from resonaate.scenario.config.agent_config import AgentConfig
    from resonaate.scenario.config.geopotential_config import GeopotentialConfig
    from resonaate.scenario.config.perturbations_config import PerturbationsConfig
    from resonaate.scenario.config.propagation_config import PropagationConfig

    t = parse(c["t"])
    tau, dur = c["tau"], c["T"]
    x0 = _state(c)
    geo = GeopotentialConfig(model="egm96.txt", degree=c["deg"], order=c["deg"])
    per = PerturbationsConfig(third_bodies=list(c["bodies"]), solar_radiation_pressure=c["srp"], general_relativity=False)
    prop = PropagationConfig(propagation_model=c["model"], integration_method=c["method"])
    from pydantic import ValidationError

    try:
        agent = AgentConfig(id=40001, name="late", state={"type": "eci", "position": [float(v) for v in x0[:3]], "velocity": [float(v) for v in x0[3:]]},
                            platform={"type": "spacecraft", "mass": 500.0, "visual_cross_section": 10.0})
    except ValidationError:
        # the agent configuration refuses initial positions above the GEO belt (a harness error of the fourth thorough pass)
        raise Skip("agent configuration refuses this initial altitude")
    kit.fresh_db()
    running = ScenarioClock(t - timedelta(seconds=tau), 2.0 * tau, float(tau))
    running.ticToc()
    if float(running.time) != tau or running.datetime_epoch != t:
        raise Skip(f"clock did not advance as set up ({running.time}, {running.datetime_epoch})")
    late = dynamicsFactory(agent, prop, geo, per, running)
    kit.fresh_db()
    fresh = dynamicsFactory(agent, prop, geo, per, ScenarioClock(t, 2.0 * tau, float(tau)))
    a = late.propagate(float(tau), float(tau) + dur, x0.copy())
    b = fresh.propagate(0.0, dur, x0.copy())
    scale = max(1.0, dur / 3600.0) * (5.0 if c["srp"] else 1.0)
    rec.label(c["model"])
    if c["model"] != "two_body" and (c["deg"] >= 2 or c["bodies"] or c["srp"]):
        rec.nontrivial([c["t"], round(c["a"], -2), tau, dur, c["deg"], tuple(c["bodies"]), c["srp"], c["method"]])
    _cmp("sp_epoch_split", a, b, rec, scale, f"agent built by dynamicsFactory when the scenario clock reads {tau}s vs the same agent on a scenario started {tau}s later ({c['model']}, deg {c['deg']}, {c['bodies']}, srp={c['srp']}, {c['method']}, {dur}s arc at {c['t']})")
