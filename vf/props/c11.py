"""C11 - ground facilities stay fixed at their configured geodetic location."""

from __future__ import annotations

import math
from datetime import datetime, timedelta
from types import SimpleNamespace

import numpy as np
from hypothesis import strategies as st

from vf import scenario_kit as kit  # installs the Ray double before resonaate is imported
from vf.oracles import geodesy, sidereal
from vf.runner import Prop, Violation
from vf.strategies.instants import eop_instants, iso, parse

PI = math.pi

PROP = Prop(
    "C11",
    rule=(
        "component: Hypothesis (site lat/lon/alt incl. poles/equator/antimeridian, start instant at 1 s granularity over the EOP "
        "table weighted to second != 0 and to starts shortly before midnight, elapsed whole seconds up to 3 days) through the real "
        "configuration model, dynamicsFactory and Terrestrial.propagate; scenario: the same through a real Scenario with a ground "
        "sensor run for several steps on the in-process Ray double. Non-trivial = start second != 0 or the run crosses midnight; "
        "distinct by (start, site, elapsed)."
    ),
    assumptions=[
        "the inertial<->Earth-fixed rotation itself is C04's subject and is used here to convert the reported inertial state back",
        "geodetic reference: independent ellipsoid formulas (vf/oracles/geodesy.py)",
    ],
)
PROP.selftest(geodesy.selftest)
PROP.selftest(sidereal.selftest)

POS_TOL = 1e-3   # km   (the property: within a metre; a 1 s epoch slip is 0.46 km at the equator)
VEL_TOL = 1e-7   # km/s (Earth-fixed velocity of the reported state; a 1 s slip leaves this unchanged, a wrong rate does not)


def _sites():
    lat = st.one_of(st.floats(-90, 90), st.sampled_from([0.0, 90.0, -90.0, 89.999, 45.0, -33.0]))
    # longitudes in either convention: -180..180, or east longitude 0..360 (Maui at 203.74 E; no validator restricts the range)
    lon = st.one_of(st.floats(-180, 180), st.floats(180, 360), st.sampled_from([0.0, 180.0, -180.0, 179.9999, 90.0, 203.74, 270.0, 359.9999, 360.0]))
    alt = st.one_of(st.floats(-0.4, 9.0), st.sampled_from([0.0, 0.095, 3.0756]))
    return st.tuples(lat, lon, alt)


def _starts():
    near_midnight = eop_instants(margin_days=5).map(lambda t: t.replace(hour=23, minute=59, second=(t.second % 50) + 5))
    return st.one_of(eop_instants(margin_days=5), near_midnight)


def _comp_cases():
    el = st.one_of(st.integers(0, 3 * 86400), st.integers(0, 600), st.sampled_from([0, 1, 60, 86400]))
    free = st.builds(lambda s, t, e: {"lat": s[0], "lon": s[1], "alt": s[2], "start": iso(t), "elapsed": e}, _sites(), _starts(), el)
    # epochs that fall exactly on 00:00:00 (start = midnight - elapsed)
    on_midnight = st.builds(
        lambda s, t, e: {"lat": s[0], "lon": s[1], "alt": s[2], "elapsed": e,
                         "start": iso(t.replace(hour=0, minute=0, second=0, microsecond=0) - timedelta(seconds=e))},
        _sites(), eop_instants(margin_days=5), st.one_of(st.integers(0, 900), st.sampled_from([0, 60, 300, 86400])))
    # epochs in the last two minutes of a UTC day: the other time scales of the reduction (TAI, TT = UTC + 67..69 s) roll over there
    late = st.builds(
        lambda s, t, e, sec: {"lat": s[0], "lon": s[1], "alt": s[2], "elapsed": e,
                              "start": iso(t.replace(hour=23, minute=58, second=0, microsecond=0) + timedelta(seconds=sec) - timedelta(seconds=e))},
        _sites(), eop_instants(margin_days=5), st.one_of(st.integers(0, 900), st.sampled_from([0, 60, 300])), st.integers(0, 119))
    # epochs on the two days of the table that END with a leap second (UT1-UTC of the next table row is one second larger)
    leap_eve = st.builds(
        lambda s, day, sec, e: {"lat": s[0], "lon": s[1], "alt": s[2], "elapsed": e,
                                "start": iso(datetime(*day) + timedelta(seconds=sec) - timedelta(seconds=e))},
        _sites(), st.sampled_from([(2015, 6, 30), (2016, 12, 31)]), st.integers(120, 86400 - 120), st.one_of(st.integers(60, 3600), st.sampled_from([60, 300, 86400])))
    return st.one_of(free, free, on_midnight, late, leap_eve)


def _expect(case, when, state, rec, what):
    from resonaate.physics.bodies import Earth
    from resonaate.physics.transforms.methods import eci2ecef

    want = geodesy.lla2ecef(math.radians(case["lat"]), math.radians(case["lon"]), case["alt"], Earth.radius, Earth.eccentricity**2)
    ecef = eci2ecef(np.asarray(state, dtype=float), when)
    dp = float(np.linalg.norm(ecef[:3] - want))
    dv = float(np.linalg.norm(ecef[3:]))
    rec.err("ecef_pos_km", dp)
    rec.err("ecef_vel_kms", dv)
    if dp > POS_TOL:
        raise Violation("ground_position", f"{what}: reported inertial state converts to an Earth-fixed position {dp:.4f} km away from the configured lat={case['lat']!r}, lon={case['lon']!r}, alt={case['alt']!r} (start {case['start']}, epoch {when.isoformat()})")
    if dv > VEL_TOL:
        raise Violation("ground_velocity", f"{what}: reported inertial velocity differs from the Earth-rotation velocity at the site by {dv:.3e} km/s (start {case['start']}, epoch {when.isoformat()})")
    # independent magnitude check of the inertial speed: w * distance from the rotation axis (polar motion tilts it by ~1e-6)
    speed = float(np.linalg.norm(np.asarray(state)[3:]))
    rho = math.hypot(want[0], want[1])
    # (polar motion moves the rotation axis by up to ~20 m at the surface: absolute allowance of w * 0.05 km)
    if abs(speed - Earth.spin_rate * rho) > Earth.spin_rate * 0.05 + 1e-6 * speed:
        raise Violation("ground_speed", f"{what}: inertial speed {speed!r} km/s, expected about {Earth.spin_rate * rho!r}")
    # independent orientation: the comparison above goes through the repository's own inertial->Earth-fixed rotation, which the
    # reported state was built with, so a slip of the Earth-rotation argument cancels there.  The right ascension of the site
    # must be the Greenwich angle (independent GMST-82 of UT1 minus precession, good to 2e-4 rad) plus its longitude.
    from resonaate.physics.transforms.eops import getEarthOrientationParameters

    ind = np.array(sidereal.ecef_to_j2000_direction(want, when, getEarthOrientationParameters(when.date()).delta_ut1))
    got = np.asarray(state, dtype=float)[:3]
    d = float(np.arctan2(np.linalg.norm(np.cross(ind, got)), ind.dot(got)))
    rec.err("direction_vs_independent_rad", d)
    # (the independent chain omits nutation and polar motion: worst observed 5e-5 rad, bound ~1e-4; a one-second slip is 7.3e-5 rad more, a day 1.7e-2)
    if d > 2.5e-4:
        raise Violation("ground_orientation", f"{what}: the site's inertial direction is {d:.3e} rad ({d * np.linalg.norm(got):.1f} km) away from an independent GMST-82 + IAU-76 precession computation (lat={case['lat']!r}, lon={case['lon']!r}, epoch {when.isoformat()})")


@PROP.clause("component", strategy=_comp_cases, quick=3000, thorough=120000, shards=4)
def component(c, rec):
    """config -> dynamicsFactory -> Terrestrial.propagate: state at start+elapsed is the configured site, rotating with the Earth"""
    from resonaate.dynamics import dynamicsFactory
    from resonaate.physics.time.stardate import datetimeToJulianDate
    from resonaate.scenario.config.agent_config import SensingAgentConfig
    from resonaate.scenario.config.geopotential_config import GeopotentialConfig
    from resonaate.scenario.config.perturbations_config import PerturbationsConfig
    from resonaate.scenario.config.propagation_config import PropagationConfig

    t0 = parse(c["start"])
    el = c["elapsed"]
    when = t0 + timedelta(seconds=el)
    crosses = (t0 + timedelta(seconds=el)).date() != t0.date()
    if t0.second or crosses:
        rec.nontrivial([c["start"], round(c["lat"], 1), round(c["lon"], 1), el])
    if crosses:
        rec.label("crosses_midnight")
    if (when.hour, when.minute, when.second) == (0, 0, 0):
        rec.label("epoch_exactly_midnight")
    cfg = SensingAgentConfig(**kit.ground_sensor(30001, c["lat"], c["lon"], c["alt"]))
    # (a stand-in for the scenario clock at build time, when the current epoch is the start)
    clock = SimpleNamespace(julian_date_start=datetimeToJulianDate(t0), datetime_start=t0, julian_date_epoch=datetimeToJulianDate(t0),
                            datetime_epoch=t0, time=0.0)
    dyn = dynamicsFactory(cfg, PropagationConfig(), GeopotentialConfig(), PerturbationsConfig(), clock)
    x0 = cfg.state.toECI(t0)
    _expect(c, t0, x0, rec, "initial state from the configuration")
    if el > 0:
        x1 = dyn.propagate(0.0, float(el), x0)
        _expect(c, when, x1, rec, f"Terrestrial.propagate to start+{el}s")
        # uniform rotation: three epochs one minute apart are separated by chords of equal length whatever the axis (precession and
        # nutation change by < 1e-10 rad per minute).  A day slip of any argument of the reduction at some instant in between shows
        # as a step of metres; only the daily Earth-orientation table may step (<= 1e-7 rad ~ 0.6 m) at 00:00 UTC.
        if el >= 60:
            xa = np.asarray(dyn.propagate(0.0, float(el - 60), x0), dtype=float)
            xc = np.asarray(dyn.propagate(0.0, float(el + 60), x0), dtype=float)
            xb = np.asarray(x1, dtype=float)
            chord_ab, chord_bc = float(np.linalg.norm(xb[:3] - xa[:3])), float(np.linalg.norm(xc[:3] - xb[:3]))
            crosses_utc_midnight = (when - timedelta(seconds=60)).date() != (when + timedelta(seconds=60)).date()
            from vf.strategies.instants import LEAP_SECOND_DATES
            from vf.runner import Skip as _Skip

            if crosses_utc_midnight and ((when + timedelta(seconds=60)).date() in LEAP_SECOND_DATES or (when - timedelta(seconds=60)).date() in LEAP_SECOND_DATES):
                rec.label("leap_second_window_not_compared")
                crosses_utc_midnight = None
            if crosses_utc_midnight is not None:
                rec.err("chord_difference_km" + (":utc_midnight" if crosses_utc_midnight else ""), abs(chord_ab - chord_bc))
            # (the daily UT1-UTC step reaches ~2 ms = 1 m at the equator: 3 m allowed across 00:00 UTC, 5 cm elsewhere; observed 1.1 m / 0.01 mm)
            if crosses_utc_midnight is not None and abs(chord_ab - chord_bc) > (3e-3 if crosses_utc_midnight else 5e-5):
                raise Violation("ground_rotation_uniform", f"ground site moves {chord_ab * 1e3:.3f} m in the minute before {when.isoformat()} and {chord_bc * 1e3:.3f} m in the minute after (lat={c['lat']!r}, lon={c['lon']!r})")
            # the same minute two days later (still inside the table): the Earth turns through the same angle per UTC minute on
            # every day (the length of day varies by ~1e-8), so the chords agree unless one of the days is given another rate
            if crosses_utc_midnight is False and when.date() not in LEAP_SECOND_DATES:
                later = [np.asarray(dyn.propagate(0.0, float(el + 172800 + o), x0), dtype=float) for o in (-60, 0)]
                if (when + timedelta(seconds=172800 - 60)).date() == (when + timedelta(seconds=172800)).date():
                    chord_later = float(np.linalg.norm(later[1][:3] - later[0][:3]))
                    rec.err("chord_vs_two_days_later_km", abs(chord_ab - chord_later))
                    if (when.year, when.month, when.day) in ((2015, 6, 30), (2016, 12, 31)):
                        rec.label("day_ending_with_a_leap_second")
                    if abs(chord_ab - chord_later) > 5e-5:
                        raise Violation("ground_rotation_rate", f"ground site moves {chord_ab * 1e3:.3f} m in the minute before {when.isoformat()} but {chord_later * 1e3:.3f} m in the same minute two days later (lat={c['lat']!r}, lon={c['lon']!r})")
        # stepping in two legs lands at the same place
        x_mid = dyn.propagate(0.0, float(el // 2), x0)
        x2 = dyn.propagate(float(el // 2), float(el), x_mid)
        if float(np.linalg.norm(x2 - x1)) > 1e-9:
            raise Violation("ground_composition", "two-leg propagation of a ground site differs from one leg")


def _scen_cases():
    # "join": how the second ground facility joins the running scenario - Scenario.addSensor called with its geodetic configuration,
    # or a sensor_addition event of the configuration (on a step boundary, or "join_frac" of a step after it)
    return st.builds(lambda s, t, dt, n, j, jf: {"lat": max(-89.0, min(89.0, s[0])), "lon": s[1], "alt": max(0.0, s[2]), "start": iso(t), "dt": dt, "n": n, "join": j, "join_frac": jf},
                     _sites(), _starts(), st.sampled_from([2, 7, 30, 60, 300, 900]), st.integers(2, 8), st.sampled_from(["api", "event", "event"]), st.sampled_from([0.0, 0.0, 0.5]))


@PROP.clause("scenario", strategy=_scen_cases, quick=48, thorough=1200, shards=16)
def scenario(c, rec):
    """a ground sensor inside a real Scenario: at every epoch its reported state / lla / stored ephemeris is the configured site"""
    from resonaate.physics.time.stardate import datetimeToJulianDate

    t0 = parse(c["start"])
    dt, n = c["dt"], c["n"]
    crosses = (t0 + timedelta(seconds=dt * n)).date() != t0.date()
    if t0.second or crosses:
        rec.nontrivial([c["start"], round(c["lat"], 1), round(c["lon"], 1), dt, n])
    tgt = kit.eci_target(10001, kit.circular_state_over(c["lat"], c["lon"], t0, 9000.0))
    sen = kit.ground_sensor(20001, c["lat"], c["lon"], c["alt"])
    # a second ground facility joins the running scenario half-way through
    k_add = max(1, n // 2)
    c2 = dict(c, lat=max(-88.0, min(88.0, c["lat"] + 1.5)), lon=((c["lon"] - 2.0 + 180.0) % 360.0) - 180.0)
    join = c.get("join", "api")
    events = []
    if join == "event":
        # (the event is handled in the step whose interval contains its time: k_add also for a time inside that step)
        tau = k_add * dt - (int(c.get("join_frac", 0.0) * dt) if dt >= 2 else 0)
        events.append({"scope": "scenario_step", "scope_instance_id": 0, "start_time": kit.iso(t0 + timedelta(seconds=tau)), "event_type": "sensor_addition",
                       "tasking_engine_id": 1, "sensor_agent": kit.ground_sensor(20002, c2["lat"], c2["lon"], c2["alt"])})
        rec.label("joins_by_event" + ("_inside_a_step" if tau != k_add * dt else "_on_a_step_boundary"))
    cfg = kit.scenario_config(t0, t0 + timedelta(seconds=(n + 1) * dt), dt, [kit.engine(1, [sen], [tgt])], truth_only=True, events=events)
    sc = kit.build(cfg)
    agent = sc.sensor_agents[20001]
    _expect(c, t0, agent.eci_state, rec, "scenario: initial sensor state")
    added = None
    for k in range(1, n + 1):
        sc.stepForward()
        when = t0 + timedelta(seconds=k * dt)
        if k == k_add:
            if join == "api":
                sc.addSensor(kit.ground_sensor(20002, c2["lat"], c2["lon"], c2["alt"]), 1)
            elif 20002 not in sc.sensor_agents:
                raise Violation("ground_sensor_not_added", f"the sensor_addition event at step {k} did not add the ground facility")
            added = sc.sensor_agents[20002]
            _expect(c2, when, added.eci_state, rec, f"scenario: ground sensor added ({join}) in step {k}, state at joining")
        elif added is not None:
            if added.datetime_epoch != when:
                raise Violation("agent_epoch", f"added sensor epoch {added.datetime_epoch} != {when}")
            _expect(c2, when, added.eci_state, rec, f"scenario: ground sensor added after step {k_add}, state after step {k}")
            rec.label("midrun_ground_sensor_checked")
        if agent.datetime_epoch != when:
            raise Violation("agent_epoch", f"sensor agent epoch {agent.datetime_epoch} != {when}")
        _expect(c, when, agent.eci_state, rec, f"scenario: sensor state after step {k}")
        lla = np.asarray(agent.lla_state, dtype=float)
        dlat = abs(lla[0] - math.radians(c["lat"]))
        dlon = abs((lla[1] - math.radians(c["lon"]) + PI) % (2 * PI) - PI) * math.cos(math.radians(c["lat"]))
        if dlat * 6378.0 > POS_TOL or dlon * 6378.0 > POS_TOL or abs(lla[2] - c["alt"]) > POS_TOL:
            raise Violation("ground_lla", f"sensor lla_state {lla.tolist()} != configured ({math.radians(c['lat'])!r}, {math.radians(c['lon'])!r}, {c['alt']!r}) after step {k}")
    sc.saveDatabaseOutput()
    rows = kit.raw_sql("select julian_date, pos_x_km, pos_y_km, pos_z_km, vel_x_km_p_sec, vel_y_km_p_sec, vel_z_km_p_sec from truth_ephemerides where agent_id = 20001 order by julian_date")
    jd_last = float(datetimeToJulianDate(t0 + timedelta(seconds=n * dt)))
    last = [r for r in rows if abs(r[0] - jd_last) < 1e-7]
    if len(last) != 1:
        raise Violation("ground_row", f"{len(last)} stored truth rows for the sensor at the last epoch")
    _expect(c, t0 + timedelta(seconds=n * dt), np.array(last[0][1:]), rec, "scenario: stored truth ephemeris of the sensor")
