"""C09 - the output database is complete, duplicate-free and referentially consistent."""

from __future__ import annotations

from datetime import datetime, timedelta

import numpy as np
from hypothesis import strategies as st

from vf import scenario_kit as kit  # installs the Ray double before resonaate is imported
from vf.runner import Prop, Violation
from vf.strategies.instants import eop_instants, iso, parse

PROP = Prop(
    "C09",
    rule=(
        "Hypothesis histories: (physics step, output step) equal / multiple / non-multiple, a sequence of 1-4 consecutive run calls of "
        "drawn lengths, injected commit faults at drawn run calls (the bulk save raises after flushing part of the objects), agent sets "
        "changing through target addition/removal events, estimation on/off, filter steps saved or not, maneuver detection with an "
        "unplanned impulse; after every operation the database is audited with plain SQL. Non-trivial = output step != physics step, "
        "or >= 2 run calls, or an agent-set change, or a fault; distinct by (steps, ops, options)."
    ),
    assumptions=[
        "audit oracle is raw SQL over the produced SQLite database (no ORM); values held by the simulation are snapshotted by wrapping "
        "Scenario.saveDatabaseOutput on the harness side",
        "faults are injected below the ORM, on the engine's before_cursor_execute event: the INSERT statement that would exceed a drawn row budget, or the first INSERT into a drawn table, raises SQLAlchemyError after the earlier statements of the transaction were executed",
    ],
)
kit.install_keyed_noise(per_call=True)  # repeated measurements of one pair at one epoch differ, as with real noise

SITE = (20.0, 60.0)
FK_TABLES = {
    "truth_ephemerides": ("agent_id",), "estimate_ephemerides": ("agent_id",), "observations": ("sensor_id", "target_id"),
    "missed_observations": ("sensor_id", "target_id"), "tasks": ("sensor_id", "target_id"), "detected_maneuvers": ("target_id",),
    "filterstep": ("target_id",),
}


@st.composite
def _cases(draw):
    t0 = draw(eop_instants(margin_days=3))
    dt = draw(st.sampled_from([20, 30, 60, 225]))  # 3 x 225 s = 675 s = 86400/128 s is exact in Julian-date arithmetic
    out = draw(st.sampled_from([dt, dt, 2 * dt, 3 * dt, dt + dt // 2, 50 if dt == 20 else 2 * dt]))
    ops = []
    total = 0
    for _ in range(draw(st.integers(1, 4))):
        k = draw(st.integers(1, 5))
        ops.append({"op": "run", "steps": k, "fault": draw(st.sampled_from([None, None, None, 0, 1, 3, 6, 11, 25, 40, "tasks", "observations", "estimate_ephemerides", "filterstep", "sequential_filter_step", "detected_maneuvers", "missed_observations"]))})
        total += k
    events = []
    if draw(st.booleans()):
        events.append({"kind": "add", "tau": draw(st.integers(1, max(1, total * dt - 1)))})
    if draw(st.booleans()):
        events.append({"kind": "remove", "tau": draw(st.integers(1, max(1, total * dt - 1)))})
    if draw(st.booleans()):
        events.append({"kind": "impulse", "tau": draw(st.integers(1, max(1, total * dt - 1)))})
    return {"start": iso(t0), "dt": dt, "out": out, "ops": ops, "events": events, "truth_only": draw(st.sampled_from([False, False, True])),
            "filter_steps": draw(st.booleans()), "detect": draw(st.sampled_from([None, "standard_nis", "sliding_nis"])),
            "past_stop": draw(st.sampled_from([0, 0, 0, 1, 2])),
            # with the all-visible policy and background observations a sensor takes part in several tasks of one step
            "policy": draw(st.sampled_from(["MunkresDecision", "MunkresDecision", "AllVisibleDecision", "MyopicNaiveGreedyDecision"]))}


def _config(c, total_steps):
    t0 = parse(c["start"])
    dt = c["dt"]
    when = lambda s: (t0 + timedelta(seconds=s)).strftime("%Y-%m-%dT%H:%M:%S.000Z")  # noqa: E731
    tg = lambda j, r, off: kit.eci_target(14001 + j, kit.circular_state_over(SITE[0], SITE[1], t0, r, heading_deg=40.0 + 70 * j, offset_deg=off))  # noqa: E731
    tgts = [tg(0, 20000.0, (0, 0)), tg(1, 21000.0, (2, 3))]
    cov = [[1e-7, 0, 0, 0], [0, 1e-7, 0, 0], [0, 0, 0.01, 0], [0, 0, 0, 1e-7]]
    wide = {"background_observations": True, "field_of_view": {"fov_shape": "conic", "cone_angle": 60.0}}
    sens = [kit.ground_sensor(24001, SITE[0], SITE[1], covariance=cov, **wide), kit.ground_sensor(24002, SITE[0] + 2, SITE[1] - 1, covariance=cov, **wide)]
    evs = []
    for e in c["events"]:
        if e["kind"] == "add":
            evs.append({"scope": "scenario_step", "scope_instance_id": 0, "start_time": when(e["tau"]), "event_type": "target_addition",
                        "tasking_engine_id": 1, "target_agent": tg(2, 22000.0, (-2, 1))})
        elif e["kind"] == "remove":
            evs.append({"scope": "scenario_step", "scope_instance_id": 0, "start_time": when(e["tau"]), "event_type": "agent_removal",
                        "tasking_engine_id": 1, "agent_id": 14002, "agent_type": "target"})
        else:
            evs.append({"scope": "agent_propagation", "scope_instance_id": 14001, "event_type": "impulse", "start_time": when(e["tau"]),
                        "thrust_vector": [0.0, 0.3, 0.0], "thrust_frame": "ntw", "planned": False})
    seq = {"alpha": 0.5, "save_filter_steps": c["filter_steps"]}
    if c["detect"]:
        seq["maneuver_detection"] = {"name": c["detect"], "threshold": 0.05}
    # the configured stop may lie before the end of what is actually run: the clock writes epoch rows up to the stop in advance,
    # beyond it the output routine adds them itself
    span_steps = max(1, total_steps + 2 - c.get("past_stop", 0) * 3)
    eng = kit.engine(1, sens, tgts, decision=c.get("policy", "MunkresDecision"))
    return kit.scenario_config(t0, t0 + timedelta(seconds=span_steps * dt), dt, [eng], output_dt=c["out"], observation={"background": True},
                               truth_only=c["truth_only"], events=evs, seq_filter=seq)


class _FaultyBulk:
    """Fault injection (harness side) at the level of SQL statements, so that it does not depend on which session API the code
    writes through (bulk save, add_all, one transaction or several).  Armed with a budget of k rows, the INSERT statement that
    would write row k+1 raises SQLAlchemyError (the rows of earlier statements of that transaction were executed and have to be
    rolled back).  Armed with a table name, the first INSERT into that table raises."""

    def __init__(self):
        self.budget = None  # int (rows still allowed) | str (table whose first INSERT fails) | None
        self.fired = 0
        self._listener = None

    def __enter__(self):
        from sqlalchemy import event
        from sqlalchemy.engine import Engine
        from sqlalchemy.exc import SQLAlchemyError

        me = self

        def before(conn, cursor, statement, parameters, context, executemany):  # noqa: ARG001
            if me.budget is None:
                return
            head = statement.lstrip()[:80].upper()
            if not head.startswith("INSERT"):
                return
            if isinstance(me.budget, str):
                if f"INTO {me.budget.upper()} " not in head + " " and f'INTO "{me.budget.upper()}"' not in head:
                    return
                me.budget = None
                me.fired += 1
                raise SQLAlchemyError("injected fault on the first INSERT into the named table")
            rows = len(parameters) if executemany and isinstance(parameters, (list, tuple)) else 1
            if me.budget >= rows:
                me.budget -= rows
                return
            me.budget = None
            me.fired += 1
            raise SQLAlchemyError("injected fault during the writing of a step")

        self._listener = before
        event.listen(Engine, "before_cursor_execute", before)
        return self

    def __exit__(self, *exc):
        from sqlalchemy import event
        from sqlalchemy.engine import Engine

        event.remove(Engine, "before_cursor_execute", self._listener)
        return False


def _audit(c, t0, expected, rec, where):
    """expected: dict epoch_seconds -> {"truth": {agent: state bytes}, "est": {agent: (state bytes, cov bytes)}}; failed: set of epochs."""
    from resonaate.physics.time.stardate import datetimeToJulianDate

    q = kit.raw_sql
    epochs = q("select julian_date, timestampISO from epochs order by julian_date")
    jds = [e[0] for e in epochs]
    isos = [e[1] for e in epochs]
    if len(set(jds)) != len(jds) or len(set(isos)) != len(isos):
        raise Violation("epoch_duplicate", f"{where}: duplicate epoch rows")
    if isos != sorted(isos):
        raise Violation("epoch_order", f"{where}: epoch timestamps are not increasing with their Julian dates")
    by_jd = {}
    for jd, ts in epochs:
        want = float(datetimeToJulianDate(datetime.fromisoformat(ts)))
        if abs(jd - want) > 1e-9:
            raise Violation("epoch_timestamp", f"{where}: epoch {ts} stored with Julian date {jd!r}, its timestamp converts to {want!r}")
        by_jd[jd] = datetime.fromisoformat(ts)
    agents = {r[0] for r in q("select unique_id from agents")}
    for table, cols in FK_TABLES.items():
        dangling = q(f"select count(*) from {table} t left join epochs e on t.julian_date = e.julian_date where e.julian_date is null")[0][0]
        if dangling:
            ex = q(f"select t.julian_date from {table} t left join epochs e on t.julian_date = e.julian_date where e.julian_date is null limit 1")[0][0]
            raise Violation("dangling_epoch", f"{where}: {dangling} row(s) of {table} refer to Julian date {ex!r} which is not in the epochs table")
        for col in cols:
            bad = q(f"select count(*) from {table} t left join agents a on t.{col} = a.unique_id where a.unique_id is null")[0][0]
            if bad:
                raise Violation("dangling_agent", f"{where}: {bad} row(s) of {table}.{col} refer to an agent that is not in the agents table")
    for table in ("truth_ephemerides", "estimate_ephemerides"):
        dup = q(f"select agent_id, julian_date, count(*) from {table} group by agent_id, julian_date having count(*) > 1")
        if dup:
            raise Violation("duplicate_rows", f"{where}: {table} has {dup[0][2]} rows for agent {dup[0][0]} at Julian date {dup[0][1]!r}")
    for table, a, b in (("observations", "sensor_id", "target_id"), ("missed_observations", "sensor_id", "target_id"), ("tasks", "sensor_id", "target_id")):
        dup = q(f"select {a}, {b}, julian_date, count(*) from {table} group by {a}, {b}, julian_date having count(*) > 1")
        if dup:
            raise Violation("duplicate_rows", f"{where}: {table} has {dup[0][3]} rows for ({dup[0][0]}, {dup[0][1]}) at Julian date {dup[0][2]!r}")
    dup = q("select target_id, julian_date, count(*) from detected_maneuvers group by target_id, julian_date having count(*) > 1")
    if dup:
        raise Violation("duplicate_rows", f"{where}: detected_maneuvers has {dup[0][2]} rows for target {dup[0][0]} at Julian date {dup[0][1]!r}")
    # completeness + values
    truth = {}
    for r in q("select agent_id, julian_date, pos_x_km, pos_y_km, pos_z_km, vel_x_km_p_sec, vel_y_km_p_sec, vel_z_km_p_sec from truth_ephemerides"):
        truth[(r[0], int(round((by_jd[r[1]] - t0).total_seconds())))] = np.asarray(r[2:], dtype=np.float64).tobytes()
    covcols = ", ".join(f"covar_{i}{j}" for i in range(6) for j in range(6))
    est = {}
    for r in q(f"select agent_id, julian_date, pos_x_km, pos_y_km, pos_z_km, vel_x_km_p_sec, vel_y_km_p_sec, vel_z_km_p_sec, {covcols} from estimate_ephemerides"):
        est[(r[0], int(round((by_jd[r[1]] - t0).total_seconds())))] = (np.asarray(r[2:8], dtype=np.float64).tobytes(), np.asarray(r[8:], dtype=np.float64).tobytes())
    want_truth = {(a, sec): b for sec, d in expected.items() for a, b in d["truth"].items()}
    want_est = {(a, sec): b for sec, d in expected.items() for a, b in d["est"].items()}
    if set(truth) != set(want_truth):
        missing = sorted(set(want_truth) - set(truth))[:4]
        extra = sorted(set(truth) - set(want_truth))[:4]
        raise Violation("truth_rows", f"{where}: truth rows (agent, seconds after start) missing {missing}, unexpected {extra}; expected output epochs {sorted(expected)}")
    if set(est) != set(want_est):
        missing = sorted(set(want_est) - set(est))[:4]
        extra = sorted(set(est) - set(want_est))[:4]
        raise Violation("estimate_rows", f"{where}: estimate rows missing {missing}, unexpected {extra}; expected output epochs {sorted(expected)}")
    for key, b in want_truth.items():
        if truth[key] != b:
            raise Violation("truth_value", f"{where}: stored truth state of agent {key[0]} at +{key[1]}s differs from the state the simulation held")
    for key, (xb, pb) in want_est.items():
        if est[key][0] != xb or est[key][1] != pb:
            raise Violation("estimate_value", f"{where}: stored estimate/covariance of target {key[0]} at +{key[1]}s differs from the values the simulation held")
    # rows of other tables never belong to an epoch whose commit failed
    return {t: q(f"select count(*) from {t}")[0][0] for t in FK_TABLES}


@PROP.clause("histories", strategy=_cases, quick=96, thorough=2400, shards=16)
def histories(c, rec):
    """run/fault histories: after every operation the database passes a raw-SQL audit (epochs, completeness, duplicates, references, values, atomicity)"""
    from sqlalchemy.exc import SQLAlchemyError

    from resonaate.physics.time.stardate import datetimeToJulianDate
    from vf.runner import Skip

    t0 = parse(c["start"])
    dt, out = c["dt"], c["out"]
    total = sum(o["steps"] for o in c["ops"])
    nontrivial = out != dt or len(c["ops"]) >= 2 or bool(c["events"]) or any(o["fault"] is not None for o in c["ops"])
    if nontrivial:
        rec.nontrivial([dt, out, tuple((o["steps"], o["fault"]) for o in c["ops"]), tuple(e["kind"] for e in c["events"]), c["truth_only"], c["filter_steps"], c["detect"]])
    rec.label("policy:" + c.get("policy", "MunkresDecision"))
    rec.label("out==dt" if out == dt else ("out multiple" if out % dt == 0 else "out non-multiple"))
    if c.get("past_stop") and total + 2 - c["past_stop"] * 3 < total:
        rec.label("run_continues_past_configured_stop")
    expected = {}
    with _FaultyBulk() as faulty:
        try:
            sc = kit.build(_config(c, total))
        except np.linalg.LinAlgError:
            raise Skip("UKF covariance not positive definite")
        orig_save = sc.saveDatabaseOutput
        state = {"failing": False}

        def save():
            sec = int(round(float(sc.clock.time)))
            snap = {"truth": {a: np.asarray(ag.eci_state, dtype=np.float64).tobytes() for a, ag in list(sc.target_agents.items()) + list(sc.sensor_agents.items())},
                    "est": {} if c["truth_only"] else {a: (np.asarray(e.eci_state, dtype=np.float64).tobytes(), np.asarray(e.error_covariance, dtype=np.float64).tobytes())
                                                       for a, e in sc.estimate_agents.items()}}
            try:
                orig_save()
            except SQLAlchemyError:
                state["failing"] = True
                raise
            expected[sec] = snap

        sc.saveDatabaseOutput = save
        # the constructor already saved the initial state
        expected[0] = {"truth": {a: np.asarray(ag.eci_state, dtype=np.float64).tobytes() for a, ag in list(sc.target_agents.items()) + list(sc.sensor_agents.items())},
                       "est": {} if c["truth_only"] else {a: (np.asarray(e.eci_state, dtype=np.float64).tobytes(), np.asarray(e.error_covariance, dtype=np.float64).tobytes())
                                                          for a, e in sc.estimate_agents.items()}}
        counts = _audit(c, t0, expected, rec, "after construction")
        done = 0
        for i, op in enumerate(c["ops"]):
            goal = done + op["steps"]
            if op["fault"] is not None:
                faulty.budget = op["fault"]
                rec.label("fault_armed" if not isinstance(op["fault"], str) else "fault_armed:table:" + op["fault"])
            attempts = 0
            while int(round(float(sc.clock.time))) < goal * dt and attempts < 3:
                attempts += 1
                before = counts
                try:
                    sc.propagateTo(datetimeToJulianDate(t0 + timedelta(seconds=goal * dt)))
                except SQLAlchemyError:
                    rec.label("fault_fired")
                    # atomicity: nothing of the failed commit is visible
                    sec = int(round(float(sc.clock.time)))
                    after = _audit(c, t0, expected, rec, f"op {i} after the injected commit fault at +{sec}s")
                    if after != before:
                        # rows of *earlier* successful commits inside this call are legitimate; compare against a fresh count of
                        # rows belonging to the failed epoch instead
                        jd = float(sc.clock.julian_date_epoch)
                        for t in FK_TABLES:
                            n = kit.raw_sql(f"select count(*) from {t} where abs(julian_date - ?) < 1e-9", (jd,))[0][0]
                            if n:
                                raise Violation("not_atomic", f"op {i}: the commit at +{sec}s failed after flushing part of its rows, but {n} row(s) of {t} for that epoch are in the database")
                    counts = after
                    continue
                except np.linalg.LinAlgError:
                    raise Skip("UKF covariance not positive definite")
                counts = _audit(c, t0, expected, rec, f"op {i} (run to step {goal})")
            faulty.budget = None
            done = goal
            if int(round(float(sc.clock.time))) != goal * dt:
                raise Violation("run_incomplete", f"op {i}: clock at {float(sc.clock.time)}s, expected {goal * dt}s")
        # output epochs: every k*dt with (k*dt) % out == 0 must have been committed (unless its commit was the injected fault)
        want = {k * dt for k in range(1, total + 1) if (k * dt) % out == 0} | {0}
        got = set(expected)
        if faulty.fired == 0 and got != want:
            raise Violation("output_epochs", f"committed output epochs {sorted(got)} != expected {sorted(want)} (dt={dt}, output step {out})")
        if len(want - got) > faulty.fired:
            raise Violation("output_epochs", f"output epochs {sorted(want - got)} were never committed although only {faulty.fired} commit fault(s) were injected")


# ------------------------------------------------------------------------------------------------
def _imp_cases():
    return st.builds(lambda t, dt, n, si: {"start": iso(t), "dt": dt, "n": n, "sensors_imported": si}, eop_instants(margin_days=3),
                     st.sampled_from([2, 7, 30, 60, 90, 300, 777]), st.integers(2, 10), st.booleans())


@PROP.clause("imported_agents", strategy=_imp_cases, quick=64, thorough=1600, shards=16)
def imported_agents(c, rec):
    """output database of a run whose agents take their truth from an importer database: same audit (references, duplicates, completeness)"""
    import os
    import shutil
    import tempfile

    from resonaate.physics.time.stardate import datetimeToJulianDate
    from vf.props import c19
    from vf.runner import Skip

    t0 = parse(c["start"])
    dt, n = c["dt"], c["n"]
    if t0.second or dt not in (30, 60, 300):
        rec.nontrivial([c["start"], dt, n, c["sensors_imported"]])
    tmp = tempfile.mkdtemp(prefix="vf-c09-")
    try:
        src = os.path.join(tmp, "source.sqlite3")
        tgts, sens = c19._agents(t0)
        mk = lambda **kw: kit.scenario_config(t0, t0 + timedelta(seconds=(n + 1) * dt), dt, [kit.engine(1, sens, tgts)], seq_filter={"alpha": 0.5}, **kw)  # noqa: E731
        try:
            sc = kit.build(mk(), db_file=src)
            sc.propagateTo(datetimeToJulianDate(t0 + timedelta(seconds=n * dt)))
            kit.fresh_db()
            sc = kit.build(mk(propagation={"target_realtime_propagation": False, "sensor_realtime_propagation": not c["sensors_imported"]}),
                           importer_db_path=f"sqlite:///{src}")
            expected = {0: {"truth": {a: np.asarray(ag.eci_state, dtype=np.float64).tobytes() for a, ag in list(sc.target_agents.items()) + list(sc.sensor_agents.items())},
                            "est": {a: (np.asarray(e.eci_state, dtype=np.float64).tobytes(), np.asarray(e.error_covariance, dtype=np.float64).tobytes()) for a, e in sc.estimate_agents.items()}}}
            orig_save = sc.saveDatabaseOutput

            def save():
                sec = int(round(float(sc.clock.time)))
                snap = {"truth": {a: np.asarray(ag.eci_state, dtype=np.float64).tobytes() for a, ag in list(sc.target_agents.items()) + list(sc.sensor_agents.items())},
                        "est": {a: (np.asarray(e.eci_state, dtype=np.float64).tobytes(), np.asarray(e.error_covariance, dtype=np.float64).tobytes()) for a, e in sc.estimate_agents.items()}}
                orig_save()
                expected[sec] = snap

            sc.saveDatabaseOutput = save
            sc.propagateTo(datetimeToJulianDate(t0 + timedelta(seconds=n * dt)))
        except np.linalg.LinAlgError:
            raise Skip("UKF covariance not positive definite")
        _audit(c, t0, expected, rec, "importing run")
        kit.fresh_db()
    finally:
        shutil.rmtree(tmp, ignore_errors=True)
