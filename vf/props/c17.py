"""C17 - maneuver detectors compute their documented statistic over any history."""

from __future__ import annotations

import math

import numpy as np
from hypothesis import strategies as st

from vf.runner import Prop, Violation

PROP = Prop(
    "C17",
    rule=(
        "Hypothesis histories of length 1..50: per step a dimension 1..8, a direction, an SPD covariance (Cholesky factor with "
        "eigenvalues log-uniform in [1e-6, 1e4]) and a target normalised-innovation value chosen as a factor "
        "{0.3..3, and 1 +- 1e-3} of the standard bound so that all three statistics straddle their bounds; detector parameters "
        "alpha in (0,1), window 1..10, delta in (0,1); the three real detectors (built through the real configuration factory) run "
        "in lock-step with three reference models. Non-trivial = history with varying dimension, more than window+1 steps and at "
        "least one detection and one non-detection; distinct by (length, dimensions, parameters, decisions)."
    ),
    assumptions=[
        "reference decision uses the regularised upper incomplete gamma function Q(dof/2, x/2) <= alpha (no inverse CDF), "
        "guard band |Q - alpha| < 1e-9*alpha + 1e-300 is skipped and counted",
        "fading-memory degrees of freedom use n_z = running mean of the measurement dimensions (identical to the documented "
        "formula when the dimension is constant)",
    ],
)


@st.composite
def _histories(draw):
    length = draw(st.one_of(st.integers(1, 12), st.integers(1, 50)))
    # (any significance in (0, 1) can be configured; below ~1e-16 the complement 1 - alpha is no longer representable)
    alpha = draw(st.one_of(st.floats(1e-6, 0.999), st.sampled_from([0.05, 0.01, 0.5, 0.001, 1e-9, 1e-13, 1e-17, 1e-20, 1e-30])))
    window = draw(st.integers(1, 10))
    delta = draw(st.one_of(st.floats(0.01, 0.99), st.sampled_from([0.8, 0.5, 0.95])))
    same_dim = draw(st.booleans())
    d0 = draw(st.integers(1, 8))
    steps = []
    for _ in range(length):
        n = d0 if same_dim else draw(st.integers(1, 8))
        u = draw(st.lists(st.floats(-1, 1), min_size=n, max_size=n))
        if sum(x * x for x in u) < 1e-6:
            u = [1.0] + [0.0] * (n - 1)
        logs = draw(st.lists(st.floats(-3, 1), min_size=n, max_size=n))
        low = draw(st.lists(st.floats(-1, 1), min_size=n * (n - 1) // 2, max_size=n * (n - 1) // 2))
        factor = draw(st.sampled_from([0.05, 0.3, 0.7, 0.9, 0.999, 1.001, 1.1, 1.5, 3.0, 30.0]))
        steps.append({"n": n, "u": u, "logs": logs, "low": low, "f": factor})
    scale = draw(st.sampled_from([1.0, 1.0, 1.5, 10.0, 1000.0]))
    return {"alpha": alpha, "window": window, "delta": delta, "steps": steps, "scale_last": scale}


def _sf(x, dof):
    """Upper-tail probability of chi-square(dof) at x."""
    from scipy.special import gammaincc

    return float(gammaincc(dof / 2.0, x / 2.0))


def _materialise(step, alpha):
    from scipy.stats import chi2

    n = step["n"]
    l_mat = np.zeros((n, n))
    k = 0
    for i in range(n):
        for j in range(i):
            l_mat[i, j] = step["low"][k] * 10 ** (0.5 * (step["logs"][i] + step["logs"][j]) / 2)
            k += 1
        l_mat[i, i] = 10 ** (step["logs"][i])
    s_mat = l_mat @ l_mat.T
    u = np.array(step["u"])
    u = u / np.linalg.norm(u)
    q_target = step["f"] * float(chi2.isf(alpha, n))
    nu = l_mat @ (math.sqrt(max(q_target, 0.0)) * u)
    return nu, s_mat, q_target  # by construction nu^T S^-1 nu = q_target (S = L L^T, nu = L sqrt(q) u, |u| = 1)


def _detectors(c):
    from resonaate.estimation import maneuverDetectionFactory
    from resonaate.scenario.config.estimation_config import FadingMemoryNISConfig, SlidingNISConfig, StandardNISConfig

    return (
        maneuverDetectionFactory(StandardNISConfig(name="standard_nis", threshold=c["alpha"])),
        maneuverDetectionFactory(SlidingNISConfig(name="sliding_nis", threshold=c["alpha"], window_size=c["window"])),
        maneuverDetectionFactory(FadingMemoryNISConfig(name="fading_memory_nis", threshold=c["alpha"], delta=c["delta"])),
    )


@PROP.clause("history", strategy=_histories, quick=1500, thorough=60000, shards=8)
def history(c, rec):
    """three real detectors in lock-step with reference models: decision <=> statistic reaches the bound, metric == statistic, monotone in the latest innovation"""
    alpha, w, delta = c["alpha"], c["window"], c["delta"]
    dets = _detectors(c)
    names = ("standard", "sliding", "fading")
    data = [_materialise(s, alpha) for s in c["steps"]]
    q_hist, n_hist, cond_hist = [], [], []
    eps = 0.0
    decisions = {k: [] for k in names}
    for k, (nu, s_mat, q_exact) in enumerate(data):
        if k:
            # the detectors live inside the filter, which travels through the Ray object store between steps (read-only arrays)
            from vf import raydouble

            dets = raydouble._loads(raydouble._dumps(dets))
        q = q_exact
        q_num = float(nu @ np.linalg.solve(s_mat, nu))
        # (sanity of the construction only; solve() itself is good to ~eps * cond(S), and cond(S) reaches 1e12 for the widest scale spreads)
        if abs(q_num - q) > (1e-6 + 200 * np.finfo(float).eps * float(np.linalg.cond(s_mat))) * q + 1e-300:
            from vf.runner import HarnessError

            raise HarnessError(f"constructed NIS {q!r} but solve() gives {q_num!r}")
        q_hist.append(q)
        n_hist.append(len(nu))
        eps = delta * eps + q
        cond_hist.append(float(np.linalg.cond(s_mat)))
        want = {
            "standard": (q, float(len(nu))),
            "sliding": (sum(q_hist[-w:]), float(sum(n_hist[-w:]))),
            "fading": ((1 + delta) * eps, (sum(n_hist) / len(n_hist)) * (1 + delta) / (1 - delta)),
        }
        for name, det in zip(names, dets):
            got = bool(det(nu, s_mat))
            stat, dof = want[name]
            metric = float(det.metric)
            # the detectors form the statistic with inv(S): inherent relative error ~ eps * cond(S) (cond <= ~1e9 here)
            span = 1 if name == "standard" else (w if name == "sliding" else len(cond_hist))
            tol = 1e-12 + 50 * np.finfo(float).eps * max(cond_hist[-span:])
            rec.err("metric_rel:" + name, abs(metric - stat) / max(abs(stat), 1e-300))
            if abs(metric - stat) > tol * max(abs(stat), 1e-12):
                raise Violation("metric:" + name, f"step {k}: {name} detector reports metric {metric!r}, documented statistic is {stat!r} (dims so far {n_hist}, window {w}, delta {delta!r})")
            p = _sf(stat, dof)
            # guard band: the statistic is within the detectors' own rounding (tol) of the bound, or p == alpha to 1e-9
            p_lo, p_hi = _sf(stat * (1 + 2 * tol), dof), _sf(stat * (1 - 2 * tol), dof)
            if abs(p - alpha) <= 1e-9 * alpha + 1e-300 or (p_lo <= alpha <= p_hi):
                rec.label("boundary_skipped")
                decisions[name].append(None)
                continue
            detect = p <= alpha
            decisions[name].append(detect)
            if got != detect:
                raise Violation("decision:" + name, f"step {k}: {name} detector returned {got}, but its statistic {stat!r} with {dof!r} degrees of freedom has upper-tail probability {p!r} vs significance {alpha!r} (dims so far {n_hist}, window {w}, delta {delta!r})")
    varied = len(set(n_hist)) > 1
    mixed = any(True in [d for d in decisions[n_] if d is not None] and False in [d for d in decisions[n_] if d is not None] for n_ in names)
    if varied and len(n_hist) > w + 1 and mixed:
        rec.nontrivial([len(n_hist), tuple(n_hist[:12]), round(alpha, 4), w, round(delta, 3), tuple(decisions["sliding"][:12])])
    if varied:
        rec.label("varying_dimension")
    if len(n_hist) > w + 1:
        rec.label("longer_than_window")
    # monotonicity: replay the same prefix with the latest innovation scaled up
    scale = c["scale_last"]
    if scale > 1.0:
        dets2 = _detectors(c)
        for nu, s_mat, _q in data[:-1]:
            for det in dets2:
                det(nu, s_mat)
        nu, s_mat, _q = data[-1]
        for name, det in zip(names, dets2):
            got2 = bool(det(nu * scale, s_mat))
            before = decisions[name][-1]
            if before is True and not got2:
                raise Violation("monotonic:" + name, f"{name} detector: scaling the latest innovation by {scale} turned a detection into a non-detection")
