"""C14 - visibility predicates match exact geometry and respect its symmetries."""

from __future__ import annotations

import math

import numpy as np
from hypothesis import strategies as st

from vf.runner import Prop, Skip, Violation

PI, TWOPI = math.pi, 2 * math.pi
RE = 6378.1363

PROP = Prop(
    "C14",
    rule=(
        "Hypothesis: position pairs from the surface to 10 Re incl. grazing rays built from a tangent point +- eps; "
        "pointing/target directions in SEZ over all azimuths (dense at 0/2pi) and elevations up to the zenith; conic and "
        "rectangular FoV of all sizes; rotations about the vertical (incl. ones that carry the pair across the seam); "
        "mask intervals incl. wrap-through-north and endpoints; Sun directions constructed around umbra/penumbra. "
        "Non-trivial = pair within 1 deg of the seam / zenith / tangency / penumbra, or a mask wrapping north; "
        "distinct by rounded geometry. Boolean predicates are compared outside a guard band of 1e-9 rad / 1e-6 km."
    ),
    assumptions=[
        "spherical Earth of the documented radius for line of sight; Sun/Earth apparent disks as documented (Montenbruck 3.4)",
        "for exact-zenith pointing the azimuth is undefined: rectangular-FoV verdicts there are counted as boundary_skipped",
    ],
)

GUARD_ANG = 1e-9
GUARD_KM = 1e-6


def _sez(az, el, rho=1.0, vel=(0.0, 0.0, 0.0)):
    return np.array([-rho * math.cos(el) * math.cos(az), rho * math.cos(el) * math.sin(az), rho * math.sin(el), *vel])


def _wrap_pi(x):
    return (x + PI) % TWOPI - PI


def _angle(u, v):
    u, v = np.asarray(u[:3], float), np.asarray(v[:3], float)
    return math.atan2(np.linalg.norm(np.cross(u, v)), float(u.dot(v)))


def _az():
    return st.one_of(st.floats(0, TWOPI, exclude_max=True),
                     st.sampled_from([0.0, 1e-12, 1e-6, 0.01, TWOPI - 0.01, TWOPI - 1e-6, TWOPI - 1e-12, PI, PI / 2]))


def _el():
    return st.one_of(st.floats(-PI / 2 + 1e-3, PI / 2), st.floats(0.0, PI / 2 - 1e-3), st.sampled_from([0.0, 1.0, PI / 2 - 1e-3, PI / 2 - 1e-6]))


# ------------------------------------------------------------------------------------------------
def _fov_cases():
    small = st.floats(-0.2, 0.2)
    return st.builds(
        lambda az, el, daz, d_el, size1, size2, psi, rho1, rho2: {"az": az, "el": el, "daz": daz, "del": d_el, "s1": size1, "s2": size2,
                                                                 "psi": psi, "rho1": rho1, "rho2": rho2},
        _az(), _el(), st.one_of(small, st.floats(-PI, PI)), st.one_of(small, st.floats(-1.0, 1.0)),
        st.one_of(st.floats(1e-3, PI - 1e-3), st.sampled_from([math.radians(1.0), math.radians(10.0), PI / 2])),
        st.one_of(st.floats(1e-3, PI - 1e-3), st.sampled_from([math.radians(1.0), math.radians(10.0)])),
        st.one_of(st.floats(0, TWOPI), st.sampled_from([0.0, PI, 0.02, TWOPI - 0.02])),
        st.floats(1.0, 5e4), st.floats(1.0, 5e4))


@PROP.clause("field_of_view", strategy=_fov_cases, quick=8000, thorough=400000, shards=4)
def field_of_view(c, rec):
    """FoV membership: reflexive, conic <=> offset <= cone/2, rectangular <=> |wrap(d_az)|, |d_el| within half sizes, invariant under rotation about the vertical incl. across the azimuth seam"""
    from resonaate.sensors.field_of_view import ConicFoV, RectangularFoV

    az, el = c["az"], c["el"]
    el_t = max(-PI / 2 + 1e-6, min(PI / 2, el + c["del"]))
    az_t = (az + c["daz"]) % TWOPI
    p = _sez(az, el, c["rho1"])
    t = _sez(az_t, el_t, c["rho2"])
    seam = min(az, TWOPI - az) < math.radians(1) or min(az_t, TWOPI - az_t) < math.radians(1)
    crosses = abs(az - az_t) > PI
    if seam or crosses or el > PI / 2 - math.radians(1):
        rec.nontrivial([round(az, 3), round(el, 3), round(c["daz"], 3), round(c["del"], 3), round(c["s1"], 2)])
    if crosses:
        rec.label("pair_straddles_seam")
    cone = ConicFoV(c["s1"])
    rect = RectangularFoV(azimuth_angle=c["s1"], elevation_angle=c["s2"])
    # reflexive
    if not cone.inFieldOfView(p, p) or not cone.inFieldOfView(p, _sez(az, el, c["rho2"])):
        raise Violation("conic_reflexive", f"boresight direction not inside its own conic FoV (az={az!r}, el={el!r})")
    if not rect.inFieldOfView(p, p):
        raise Violation("rect_reflexive", f"boresight direction not inside its own rectangular FoV (az={az!r}, el={el!r})")
    # conic: angular offset
    off = _angle(p, t)
    got = bool(cone.inFieldOfView(p, t))
    if abs(off - c["s1"] / 2) > GUARD_ANG:
        if got != (off <= c["s1"] / 2):
            raise Violation("conic_membership", f"ConicFoV({c['s1']!r}).inFieldOfView = {got} but offset is {off!r} rad (half angle {c['s1'] / 2!r}); pointing az/el {az!r},{el!r}, target {az_t!r},{el_t!r}")
    else:
        rec.label("boundary_skipped")
    # rectangular: wrapped azimuth difference and elevation difference
    zenith = el > PI / 2 - 1e-7 or el_t > PI / 2 - 1e-7
    d_az = abs(_wrap_pi(az_t - az))
    d_el = abs(el_t - el)
    want = d_az <= c["s1"] / 2 and d_el <= c["s2"] / 2
    gotr = bool(rect.inFieldOfView(p, t))
    near_edge = abs(d_az - c["s1"] / 2) <= GUARD_ANG or abs(d_el - c["s2"] / 2) <= GUARD_ANG or abs(d_az - PI) <= GUARD_ANG
    if zenith or near_edge:
        rec.label("boundary_skipped")
    elif gotr != want:
        raise Violation("rect_membership", f"RectangularFoV(az={c['s1']!r}, el={c['s2']!r}).inFieldOfView = {gotr}, but |wrap(d_az)| = {d_az!r}, |d_el| = {d_el!r}; pointing az/el {az!r},{el!r}, target {az_t!r},{el_t!r}")
    # the sensors pass 6x1 slant-range vectors (position and rates): membership depends on the position part only
    rates = (np.array([3.0, -7.0, 5.0]) * (1.0 + c["rho1"] % 7.0), np.array([-6.0, 4.0, 8.0]) * (1.0 + c["rho2"] % 5.0) * max(1.0, c["rho2"] / 50.0))
    p6, t6 = np.concatenate([p[:3], rates[0]]), np.concatenate([t[:3], rates[1]])
    # (exactly at the zenith the azimuth is taken from the rates by documented convention, so the rectangular test is exempt there)
    if bool(cone.inFieldOfView(p6, t6)) != got or (not zenith and bool(rect.inFieldOfView(p6, t6)) != gotr):
        raise Violation("fov_uses_rates", f"field-of-view membership changes when the slant-range vectors carry rate components: conic {got} -> {bool(cone.inFieldOfView(p6, t6))}, rectangular {gotr} -> {bool(rect.inFieldOfView(p6, t6))} (pointing az/el {az!r},{el!r}, target {az_t!r},{el_t!r}, rates {rates[1].tolist()})")
    # invariance under a common rotation about the local vertical
    psi = c["psi"]
    p2 = _sez((az + psi) % TWOPI, el, c["rho1"])
    t2 = _sez((az_t + psi) % TWOPI, el_t, c["rho2"])
    if abs(off - c["s1"] / 2) > 1e-7 and bool(cone.inFieldOfView(p2, t2)) != got:
        raise Violation("conic_rotation", f"conic FoV verdict changes under rotation by {psi!r} about the vertical")
    if not zenith and not near_edge and abs(d_az - c["s1"] / 2) > 1e-7 and abs(d_el - c["s2"] / 2) > 1e-7:
        if bool(rect.inFieldOfView(p2, t2)) != gotr:
            raise Violation("rect_rotation", f"rectangular FoV verdict changes from {gotr} to {not gotr} when pointing (az={az!r}, el={el!r}) and target (az={az_t!r}, el={el_t!r}) are both rotated by {psi!r} about the vertical")


# ------------------------------------------------------------------------------------------------
def _dirs():
    return st.tuples(st.floats(-PI / 2, PI / 2), st.floats(-PI, PI)).map(
        lambda t: [math.cos(t[0]) * math.cos(t[1]), math.cos(t[0]) * math.sin(t[1]), math.sin(t[0])])


def _los_cases():
    radius = st.one_of(st.floats(RE, 10 * RE), st.sampled_from([RE, RE + 0.1, RE + 400, 42164.0]))
    generic = st.builds(lambda d1, r1, d2, r2: {"p1": [x * r1 for x in d1], "p2": [x * r2 for x in d2]}, _dirs(), radius, _dirs(), radius)

    def grazing(d, perp_seed, h, s1, s2):
        # tangent point at distance RE + h from the centre; both end points on the tangent line, on either side
        n = np.array(d)
        q = np.cross(n, perp_seed)
        for alt in ([1.0, 0.0, 0.0], [0.0, 1.0, 0.0]):
            if np.linalg.norm(q) < 1e-6:
                q = np.cross(n, alt)
        q = q / np.linalg.norm(q)
        tp = (RE + h) * n
        return {"p1": list(tp + s1 * q), "p2": list(tp - s2 * q)}

    graze = st.builds(grazing, _dirs(), _dirs(), st.one_of(st.floats(-50, 50), st.sampled_from([1e-3, -1e-3, 1e-5, -1e-5, 10.0, -10.0])),
                      st.floats(3000.0, 6e4), st.floats(3000.0, 6e4))
    return st.one_of(generic, graze, graze)


@PROP.clause("line_of_sight", strategy=_los_cases, quick=8000, thorough=400000, shards=2)
def line_of_sight(c, rec):
    """lineOfSight(a,b) == lineOfSight(b,a) == [closest point of the segment ab to the Earth's centre is >= Re away]"""
    from resonaate.physics.bodies import Earth
    from resonaate.physics.sensor_utils import lineOfSight

    a, b = np.array(c["p1"], float), np.array(c["p2"], float)
    if np.linalg.norm(a) < Earth.radius or np.linalg.norm(b) < Earth.radius:
        raise Skip("end point below the surface")
    d = b - a
    dd = float(d.dot(d))
    if dd < 1e-6:
        # closer than 1 m: outside realistic use (a sensor observing an object at its own location); the
        # quadratic form loses all precision there (difference of two ~4e7 km^2 numbers)
        raise Skip("points closer than 1 m")
    s = min(1.0, max(0.0, float(-a.dot(d)) / dd))
    dmin = float(np.linalg.norm(a + s * d))
    if abs(dmin - Earth.radius) < 200:
        rec.nontrivial([round(dmin - Earth.radius, 1), round(float(np.linalg.norm(a)), -2), round(float(np.linalg.norm(b)), -2)])
    g1, g2 = bool(lineOfSight(a, b)), bool(lineOfSight(b, a))
    if abs(dmin - Earth.radius) <= GUARD_KM:
        rec.label("boundary_skipped")
        return
    if g1 != g2:
        raise Violation("los_symmetry", f"lineOfSight(a,b)={g1} but lineOfSight(b,a)={g2} for a={c['p1']}, b={c['p2']}")
    want = dmin >= Earth.radius
    if g1 != want:
        raise Violation("los_geometry", f"lineOfSight={g1} but the segment passes {dmin - Earth.radius:+.6f} km from the surface (a={c['p1']}, b={c['p2']})")


# ------------------------------------------------------------------------------------------------
def _overlap_fraction(a, b, c):
    """Visible fraction of a disk of angular radius a when a disk of radius b is centred c away (segment-area form)."""
    if c >= a + b:
        return 1.0
    if c <= abs(b - a):
        return 0.0 if b >= a else 1.0 - (b / a) ** 2
    ca = (c * c + a * a - b * b) / (2 * c * a)
    cb = (c * c + b * b - a * a) / (2 * c * b)
    al, be = math.acos(max(-1, min(1, ca))), math.acos(max(-1, min(1, cb)))
    lens = a * a * (al - math.sin(al) * math.cos(al)) + b * b * (be - math.sin(be) * math.cos(be))
    return 1.0 - lens / (PI * a * a)


def _sun_cases():
    return st.builds(
        lambda d, r, u, phi, dist, u2: {"d": d, "r": r, "u": u, "phi": phi, "dist": dist, "u2": u2},
        _dirs(), st.one_of(st.floats(RE + 200, 10 * RE), st.sampled_from([RE + 200.0, 42164.0])),
        st.one_of(st.floats(-3, 3), st.floats(-1, 1), st.floats(-400, 400)), st.floats(0, TWOPI),
        st.floats(1.47e8, 1.521e8), st.floats(0.0, 1.0))


@PROP.clause("sun_fraction", strategy=_sun_cases, quick=6000, thorough=300000, shards=2)
def sun_fraction(c, rec):
    """visible Sun fraction in [0,1], 1 on the sunward side, 0 deep in the umbra, monotone across the penumbra, equals the two-disk overlap"""
    from resonaate.physics.bodies import Earth
    from resonaate.physics.bodies.third_body import Sun
    from resonaate.physics.sensor_utils import calculateSunVizFraction

    r_hat = np.array(c["d"])
    r = c["r"] * r_hat
    b = math.asin(Earth.radius / c["r"])
    a0 = math.asin(Sun.radius / c["dist"])

    def sun_at(sep):
        """Sun position such that, seen from the satellite, the Sun is `sep` rad away from the Earth's centre."""
        sep = max(0.0, min(PI, sep))
        q = np.cross(r_hat, [0.0, 0.0, 1.0])
        if np.linalg.norm(q) < 1e-6:
            q = np.cross(r_hat, [1.0, 0.0, 0.0])
        q = q / np.linalg.norm(q)
        q2 = np.cross(r_hat, q)
        side = math.cos(c["phi"]) * q + math.sin(c["phi"]) * q2
        direction = math.cos(sep) * (-r_hat) + math.sin(sep) * side
        return r + c["dist"] * direction

    sep = b + a0 * c["u"]
    s = sun_at(sep)
    f = float(calculateSunVizFraction(r, s))
    if -1.2 <= c["u"] <= 1.2:
        rec.nontrivial([round(c["r"], -2), round(c["u"], 2)])
    if not (0.0 <= f <= 1.0) or f != f:
        raise Violation("sun_fraction_range", f"visible Sun fraction {f!r} outside [0,1] (r={c['r']!r}, separation {sep!r})")
    sat_sun = s - r
    a = math.asin(Sun.radius / np.linalg.norm(sat_sun))
    sep_true = _angle(-r, sat_sun)
    want = _overlap_fraction(a, b, sep_true)
    rec.err("sun_fraction_vs_overlap", abs(f - want))
    # the documented (Montenbruck) lens formula uses arccos of arguments near 1 at first/last contact: its own
    # resolution there is ~sqrt(eps)*b^2/(pi a^2) ~ 5e-5 (observed 9.6e-6); mutants (wrong radius/sign) move it by >= 1e-2
    if abs(f - want) > 5e-4:
        raise Violation("sun_fraction_value", f"visible Sun fraction {f!r}, two-disk overlap gives {want!r} (a={a!r}, b={b!r}, c={sep_true!r})")
    if r.dot(s) >= 0 and f != 1.0:
        raise Violation("sunward", f"satellite on the sunward side but fraction {f!r}")
    if sep_true < b - a - 1e-9 and f != 0.0:
        raise Violation("umbra", f"satellite deep in the umbra (c={sep_true!r} < b-a={b - a!r}) but fraction {f!r}")
    # monotone: moving the Sun further from the Earth's disk centre never decreases the visible fraction
    sep2 = sep + a0 * c["u2"]
    f2 = float(calculateSunVizFraction(r, sun_at(sep2)))
    # (the lens formula has steps of up to ~3e-5 at first/last contact - observed 3.2e-5 -> 0 at the umbra edge; a wrong-signed term reverses the trend by >= 1e-2)
    if f2 < f - 1e-4:
        raise Violation("sun_fraction_monotone", f"fraction decreases from {f!r} to {f2!r} when the Sun moves away from the Earth's disk ({sep!r} -> {sep2!r})")


# ------------------------------------------------------------------------------------------------
def _limb_cases():
    return st.builds(lambda d, r, az, el_off, rho, big: {"d": d, "r": r, "az": az, "off": el_off, "rho": rho, "big": big},
                     _dirs(), st.floats(RE + 200, 10 * RE), _az(), st.one_of(st.floats(-0.05, 0.05), st.floats(-1e-6, 1e-6)),
                     st.floats(1.0, 1e5), st.one_of(st.none(), st.floats(-PI / 2 + 1e-6, PI / 2 - 1e-6)))


@PROP.clause("earth_limb", strategy=_limb_cases, quick=6000, thorough=300000, shards=2)
def earth_limb(c, rec):
    """limb obscuration <=> angle(target direction, nadir) < asin((Re + atmosphere) / r)"""
    from resonaate.physics.bodies import Earth
    from resonaate.physics.sensor_utils import checkSpaceSensorEarthLimbObscuration

    r = c["r"]
    cone = math.asin((Earth.radius + Earth.atmosphere) / r)
    el = c["big"] if c["big"] is not None else (cone - PI / 2 + c["off"])
    el = max(-PI / 2 + 1e-9, min(PI / 2 - 1e-9, el))
    t = _sez(c["az"], el, c["rho"])
    sensor = np.concatenate([np.array(c["d"]) * r, np.zeros(3)])
    ang_nadir = _angle(t, [0.0, 0.0, -1.0])
    if abs(ang_nadir - cone) < math.radians(1):
        rec.nontrivial([round(r, -2), round(ang_nadir - cone, 4)])
    got = bool(checkSpaceSensorEarthLimbObscuration(sensor, t))
    if abs(ang_nadir - cone) <= GUARD_ANG * 10:
        rec.label("boundary_skipped")
        return
    if got != (ang_nadir < cone):
        raise Violation("earth_limb", f"limb obscuration={got} but the target direction is {ang_nadir!r} rad from nadir and the limb cone half-angle is {cone!r} (r={r!r})")


# ------------------------------------------------------------------------------------------------
class _Host:
    def __init__(self, eci):
        self.eci_state = eci
        self.time = 0.0


def _mask_cases():
    """Mask [a0, a1] built from a start and a width (so wrap-through-north masks are as frequent as plain ones) and a
    test azimuth placed relative to the interval (inside, outside, close to either end) - no rejection."""
    a0 = st.one_of(st.floats(0, 360, exclude_max=True), st.sampled_from([0.0, 1.0, 90.0, 180.0, 270.0, 359.0, 359.9999]))
    width = st.one_of(st.floats(0.01, 359.98), st.sampled_from([1.0, 90.0, 180.0, 270.0, 359.0]))
    rel = st.one_of(st.floats(0.0, 1.0), st.sampled_from([1e-6, 1 - 1e-6, 0.5]), st.floats(1.0, 1.0e3).map(lambda x: -x))

    def mk(a0_, w, r, e0, ew, er):
        a1 = (a0_ + w) % 360.0
        if a1 >= 360.0:
            a1 = 0.0
        if r >= 0:
            az = a0_ + (1e-6 + r * (1 - 2e-6)) * w  # strictly inside the mask
        else:
            gap = 360.0 - w
            az = a0_ + w + gap * min(0.999999, max(1e-6, (-r) / 1.0e3))  # strictly inside the complementary arc
        az = az % 360.0
        if az >= 360.0:
            az = 0.0
        e1 = min(90.0, e0 + ew)
        # elevation strictly inside (er in [0,1]) or outside (er < 0 below, er > 1 above) the elevation mask
        if 0 <= er <= 1:
            el = e0 + (1e-6 + er * (1 - 2e-6)) * (e1 - e0)
        elif er < 0:
            el = e0 - (e0 + 89.9) * min(1.0, -er) * 0.999 - 1e-6
        else:
            el = e1 + (89.9 - e1) * min(1.0, er - 1) * 0.999 + 1e-6
        el = max(-89.9, min(89.9, el))
        return {"a0": a0_, "a1": a1, "az": az, "el": el, "e0": e0, "e1": e1}

    erel = st.one_of(st.floats(0.0, 1.0), st.floats(0.0, 1.0), st.floats(-1.0, -1e-3), st.floats(1.001, 2.0))
    return st.builds(mk, a0, width, rel, st.floats(-85.0, 60.0), st.floats(0.5, 29.0), erel)


@PROP.clause("az_el_mask", strategy=_mask_cases, quick=4000, thorough=200000, shards=4)
def az_el_mask(c, rec):
    """azimuth masks (incl. ones that wrap through north) admit exactly the azimuths inside them; elevation mask likewise"""
    from resonaate.scenario.config import constructFromUnion
    from resonaate.scenario.config.sensor_config import SensorConfig
    from resonaate.sensors import sensorFactory
    from resonaate.sensors.sensor_base import Explanation, Sensor

    a0, a1 = c["a0"], c["a1"]
    e0, e1 = sorted([c["e0"], c["e1"]])
    if e0 <= -90.0:
        e0 = -89.0
    cfg = constructFromUnion(SensorConfig, {
        "type": "optical", "azimuth_range": [a0, a1],
        # the elevation limits are documented as order independent: half of the cases give them high-to-low
        "elevation_range": [e1, e0] if (int(round(c["az"] * 1e6)) % 2) else [e0, e1], "covariance": [[1e-12, 0], [0, 1e-12]],
        "aperture_diameter": 1.0, "efficiency": 0.9, "slew_rate": 5.0})
    sensor = sensorFactory(cfg)
    host_pos = np.array([RE + 1.0, 0, 0, 0, 0, 0.0])
    sensor._host = _Host(host_pos)
    tgt = np.array([RE + 1001.0, 0, 0, 0, 0, 0.0])
    az, el = math.radians(c["az"]), math.radians(c["el"])
    slant = _sez(az, el, 1000.0)
    wraps = a0 > a1
    if wraps:
        rec.nontrivial([round(a0, 0), round(a1, 0), round(c["az"], 0)])
        rec.label("mask_wraps_north")
    ok, why = Sensor.isVisible(sensor, tgt, 10.0, 0.2, slant)
    lo, hi = math.radians(a0), math.radians(a1)
    width = (hi - lo) % TWOPI
    pos = (az - lo) % TWOPI
    in_el = math.radians(e0) <= el <= math.radians(e1)
    in_az = pos <= width
    edge = min(abs(pos - width), pos, TWOPI - pos) < 1e-9 or min(abs(el - math.radians(e0)), abs(el - math.radians(e1))) < 1e-9 or a0 == a1
    if edge:
        rec.label("boundary_skipped")
        return
    want = in_el and in_az
    if bool(ok) != want:
        raise Violation("mask", f"isVisible={ok} ({why}) for az={c['az']!r} deg, el={c['el']!r} deg with azimuth mask [{a0!r},{a1!r}] and elevation mask [{e0!r},{e1!r}]: inside azimuth interval={in_az}, inside elevation interval={in_el}")
    if not ok:
        want_reason = Explanation.ELEVATION_MASK if not in_el else Explanation.AZIMUTH_MASK
        if why != want_reason:
            raise Violation("mask_reason", f"miss reason {why} but the failing constraint is {want_reason}")
