"""C06 - unscented filter equals Kalman filter on linear systems; covariances stay valid."""

from __future__ import annotations

import numpy as np
from hypothesis import strategies as st

from vf.runner import Prop, Violation

PROP = Prop(
    "C06",
    rule=(
        "Hypothesis linear-Gaussian systems: state dimension 1..8, F and H_j built from drawn orthogonal factors and singular values "
        "(cond <= 1e2), SPD P/Q/R_j with per-matrix eigenvalue spread <= 1e4 and scales 1e-6..1e2, tuning alpha in {1, 0.5, 0.1, 1e-3} "
        "or U(0,1], beta in {0, 2, U[0,4]}, kappa in {default, 0, 3-n, U} with n+lambda > 0, 1..4 stacked observations of dimension "
        "1..4, both resampling modes, 1..5 predict/update steps incl. steps without observations. The filter is the real "
        "UnscentedKalmanFilter driven through predict()/update(). Non-trivial = >= 2 stacked observations of differing dimension, "
        "or resample=True, or multi-step; distinct by (n, dims, tuning, resample, steps)."
    ),
    assumptions=[
        "observations are duck-typed objects exposing exactly the attributes the filter reads (linear measurement H x, NOT_ANGLE flags)",
        "tolerance 1e-10 * max(1,|w0|) * cond(S) relative (w0 = centre sigma weight, ~1e6 for alpha=1e-3); calibrated, see evidence",
    ],
)


class _LinearDynamics:
    def __init__(self, f):
        self.f = np.array(f)

    def propagate(self, initial_time, final_time, initial_state, station_keeping=None, scheduled_events=None, error_flags=None):
        return self.f @ initial_state


class _LinMeasurement:
    def __init__(self, h):
        from resonaate.physics.measurements import IsAngle

        self.h = np.array(h)
        self.angular_values = [IsAngle.NOT_ANGLE] * self.h.shape[0]
        # channel names whose declared order is not the alphabetical one (a measurement's channels are an ordered list; real
        # sensors happen to declare theirs alphabetically)
        self.labels = [f"ch{(7 * i + 3) % 11:02d}" for i in range(self.h.shape[0])]

    def calculateMeasurement(self, sen_eci_state, tgt_eci_state, utc_date, noisy=False):
        return dict(zip(self.labels, self.h @ np.asarray(tgt_eci_state)))


class _Obs:
    def __init__(self, h, r, z):
        self.measurement = _LinMeasurement(h)
        self.r_matrix = np.array(r)
        self.measurement_states = np.array(z)
        self.julian_date = 2458800.5
        self.sensor_eci = np.zeros(6)
        self.sensor_id = 1
        self.target_id = 1

    @property
    def angular_values(self):
        return self.measurement.angular_values

    @property
    def dim(self):
        return self.measurement_states.shape[0]


# ------------------------------------------------------------------------------------------------
def _orth(seed_vals, n):
    a = np.array(seed_vals, dtype=float).reshape(n, n) + 1e-3 * np.eye(n)
    q, r = np.linalg.qr(a)
    return q * np.sign(np.diag(r) + 1e-300)


@st.composite
def _systems(draw):
    n = draw(st.integers(1, 8))

    def mat(rows, cols):
        return draw(st.lists(st.floats(-1, 1), min_size=rows * cols, max_size=rows * cols))

    def spd(k):
        scale = draw(st.sampled_from([1e-6, 1e-3, 1.0, 1e2]))
        ev = [scale * 10 ** draw(st.floats(-2, 2)) for _ in range(k)]
        return {"q": mat(k, k), "ev": ev}

    f = {"u": mat(n, n), "v": mat(n, n), "s": [draw(st.floats(0.3, 3.0)) for _ in range(n)]}
    alpha = draw(st.one_of(st.sampled_from([1.0, 0.5, 0.1, 1e-3, 1e-3, 1e-4]), st.floats(0.01, 1.0)))
    beta = draw(st.one_of(st.sampled_from([0.0, 2.0]), st.floats(0, 4)))
    kappa_kind = draw(st.sampled_from(["default", "zero", "3-n", "free", "near_minus_n"]))
    kappa = {"default": None, "zero": 0.0, "3-n": 3.0 - n}.get(kappa_kind, None)
    if kappa_kind == "free":
        kappa = draw(st.floats(-n + 0.5, 5.0))
    if kappa_kind == "near_minus_n":
        kappa = -n + draw(st.sampled_from([0.5, 0.1, 1.0]))  # alpha^2 (n + kappa) becomes tiny: the weights' common divisor
    if kappa == 0.0 and n + 0.0 <= 0:
        kappa = None
    nsteps = draw(st.integers(1, 5))
    steps = []
    for _ in range(nsteps):
        nobs = draw(st.sampled_from([0, 1, 1, 2, 2, 3, 4]))
        obs = []
        for _ in range(nobs):
            m = draw(st.integers(1, 4))
            obs.append({"h": mat(m, n), "hs": [draw(st.floats(0.1, 10.0)) for _ in range(min(m, n))], "r": spd(m),
                        "innov": [draw(st.floats(-3, 3)) for _ in range(m)],
                        # measurement unit of this observation (km vs m vs micro-radian-like): rescales H, z and R consistently, which
                        # leaves the Kalman update unchanged but makes the stacked innovation covariance badly scaled (cond up to 1e24)
                        "unit": draw(st.sampled_from([1.0, 1.0, 1.0, 1e-3, 1e3, 1e-6]))})
        steps.append(obs)
    return {"n": n, "f": f, "p": spd(n), "qn": spd(n), "x0": [draw(st.floats(-100, 100)) for _ in range(n)],
            "alpha": alpha, "beta": beta, "kappa": kappa, "resample": draw(st.sampled_from([True, True, False])), "steps": steps}


def _spd(d, k):
    q = _orth(d["q"], k)
    m = q @ np.diag(d["ev"]) @ q.T
    return (m + m.T) / 2


def _mat_from(d, n):
    u, v = _orth(d["u"], n), _orth(d["v"], n)
    return u @ np.diag(d["s"]) @ v.T


def _h_from(o, n):
    m = len(o["innov"])
    a = np.array(o["h"]).reshape(m, n)
    u, s, vt = np.linalg.svd(a, full_matrices=False)
    s = np.array(o["hs"][: len(s)])
    return u @ np.diag(s) @ vt


@PROP.clause("linear_kalman", strategy=_systems, quick=2500, thorough=80000, shards=8)
def linear_kalman(c, rec):
    """real UKF predict/update on a linear-Gaussian system vs textbook Kalman (or the documented no-redraw variant); weights, symmetry, PSD, Joseph-like identities"""
    from resonaate.estimation.kalman.unscented_kalman_filter import UnscentedKalmanFilter
    from resonaate.physics.time.stardate import ScenarioTime

    n = c["n"]
    f = _mat_from(c["f"], n)
    p = _spd(c["p"], n)
    q = _spd(c["qn"], n)
    x = np.array(c["x0"], dtype=float)
    kw = {"resample": c["resample"], "alpha": c["alpha"], "beta": c["beta"]}
    if c["kappa"] is not None:
        kw["kappa"] = c["kappa"]
    kappa = c["kappa"] if c["kappa"] is not None else 3.0 - n
    if c["alpha"] ** 2 * (n + kappa) <= 1e-9:
        from vf.runner import Skip

        raise Skip("n + lambda <= 0: inadmissible tuning")
    ukf = UnscentedKalmanFilter(1, ScenarioTime(0.0), x.copy(), p.copy(), _LinearDynamics(f), q.copy(), **kw)
    w0 = abs(float(ukf.mean_weight[0]))
    g = max(1.0, w0, abs(float(ukf.cvr_weight[0, 0])))
    sw = float(np.sum(ukf.mean_weight))
    if abs(sw - 1.0) > 8 * np.finfo(float).eps * float(np.sum(np.abs(ukf.mean_weight))) + 1e-15:
        raise Violation("weights_sum", f"mean weights sum to {sw!r} (alpha={c['alpha']!r}, kappa={c['kappa']!r}, n={n})")
    dims = [tuple(len(o["innov"]) for o in st_) for st_ in c["steps"]]
    multi_dim = any(len(set(d)) > 1 for d in dims)
    if multi_dim or c["resample"] or len(c["steps"]) > 1:
        rec.nontrivial([n, dims, round(c["alpha"], 3), round(c["beta"], 2), c["kappa"] if c["kappa"] is None else round(c["kappa"], 2), c["resample"]])
    rec.label("resample" if c["resample"] else "no_resample")
    xk, pk = x.copy(), p.copy()
    t = 0.0
    for k, obs_specs in enumerate(c["steps"]):
        t += 60.0
        if k:
            # between steps the filter travels through the Ray object store and comes back as a copy with read-only arrays
            from vf import raydouble

            ukf = raydouble._loads(raydouble._dumps(ukf))
        ukf.predict(ScenarioTime(t))
        xb = f @ xk
        pb = f @ pk @ f.T + q
        scale_x = float(np.linalg.norm(xb) + np.sqrt(np.trace(pb)))
        ex = float(np.linalg.norm(ukf.pred_x - xb)) / scale_x
        ep = float(np.abs(ukf.pred_p - pb).max() / np.abs(pb).max())
        rec.err("predict_x_rel_per_w0", ex / g)
        rec.err("predict_p_rel_per_w0", ep / g)
        if ex > 1e-10 * g or ep > 1e-7 * g:
            raise Violation("prediction", f"step {k}: UKF prediction differs from Kalman prediction: x rel {ex:.3e}, P rel {ep:.3e} (n={n}, alpha={c['alpha']!r}, beta={c['beta']!r}, kappa={c['kappa']!r})")
        if not obs_specs:
            ukf.update([])
            e0 = float(np.linalg.norm(ukf.est_x - xb)) / scale_x
            if e0 > 1e-10 * g:
                raise Violation("no_observation_mean", f"step {k} without observations: est_x differs from the propagated mean by rel {e0:.3e}")
            if float(np.abs(ukf.est_p - ukf.pred_p).max()) != 0.0:
                raise Violation("no_observation_cov", f"step {k} without observations: est_p != pred_p")
            xk, pk = xb, pb
            rec.label("step_without_observation")
            continue
        hs = [_h_from(o, n) for o in obs_specs]
        rs = [_spd(o["r"], len(o["innov"])) for o in obs_specs]
        h = np.vstack(hs)
        m = h.shape[0]
        r = np.zeros((m, m))
        i0 = 0
        for rj in rs:
            r[i0:i0 + rj.shape[0], i0:i0 + rj.shape[0]] = rj
            i0 += rj.shape[0]
        p_used = pb if c["resample"] else pb - q  # documented no-redraw variant: propagated points do not carry Q
        s = h @ p_used @ h.T + r
        cross = p_used @ h.T
        gain = cross @ np.linalg.inv(s)
        sd = np.sqrt(np.diag(s))
        innov = np.concatenate([np.array(o["innov"]) for o in obs_specs]) * sd
        z = h @ xb + innov
        observations = []
        i0 = 0
        units = [float(o.get("unit", 1.0)) for o in obs_specs]
        for hj, rj, lam in zip(hs, rs, units):
            observations.append(_Obs(lam * hj, lam * lam * rj, lam * z[i0:i0 + hj.shape[0]]))
            i0 += hj.shape[0]
        if len(set(units)) > 1:
            rec.label("mixed_measurement_units")
        ukf.update(observations)
        x_ref = xb + gain @ innov
        p_ref = pb - gain @ s @ gain.T
        cond = float(np.linalg.cond(s))
        tol = 1e-10 * g * max(1.0, cond)
        ex = float(np.linalg.norm(ukf.est_x - x_ref)) / scale_x
        ep = float(np.abs(ukf.est_p - p_ref).max() / np.abs(pb).max())
        rec.err("update_x_rel_per_w0cond", ex / (g * max(1.0, cond)))
        rec.err("update_p_rel_per_w0cond", ep / (g * max(1.0, cond)))
        which = "Kalman update" if c["resample"] else "documented no-redraw update"
        # calibration (unchanged tree, ~1e4 cases): worst x 3e-14, worst P 7e-11 in units of g*cond; mutants are >= 1e-3
        if ex > tol or ep > 100 * tol:
            raise Violation("update_resample" if c["resample"] else "update_no_resample",
                            f"step {k}: posterior differs from the {which}: x rel {ex:.3e}, P rel {ep:.3e} (tol {tol:.1e}; n={n}, obs dims {dims[k]}, alpha={c['alpha']!r}, beta={c['beta']!r}, kappa={c['kappa']!r})")
        # identities on the filter's own quantities
        ks, ss = ukf.kalman_gain, ukf.innov_cvr
        ident = ukf.pred_p - ks @ ss @ ks.T
        if float(np.abs(ukf.est_p - ident).max()) > 1e-12 * float(np.abs(ukf.pred_p).max()) * max(1.0, cond):
            raise Violation("posterior_identity", f"step {k}: est_p != pred_p - K S K^T")
        # (P - K S K^T with K from inv(S): the two triangles agree to ~eps * cond(S) relative to the prior)
        if float(np.abs(ukf.est_p - ukf.est_p.T).max()) > max(1e-9, 50 * np.finfo(float).eps * cond) * g * float(np.abs(ukf.pred_p).max()):
            raise Violation("posterior_symmetry", f"step {k}: posterior covariance is not symmetric")
        floor = -10 * tol * float(np.abs(pb).max())
        sym = (ukf.est_p + ukf.est_p.T) / 2
        if float(np.linalg.eigvalsh(sym).min()) < floor:
            raise Violation("posterior_psd", f"step {k}: posterior covariance has eigenvalue {np.linalg.eigvalsh(sym).min():.3e} < 0")
        if float(np.linalg.eigvalsh((ukf.pred_p - sym + (ukf.pred_p - sym).T) / 2).min()) < floor:
            raise Violation("posterior_exceeds_prior", f"step {k}: pred_p - est_p is not positive semi-definite")
        if float(np.linalg.eigvalsh((ukf.pred_p + ukf.pred_p.T) / 2).min()) < floor:
            raise Violation("prior_psd", f"step {k}: predicted covariance not PSD")
        # continue from the reference posterior; keep the filter in step with it to avoid compounding rounding
        xk, pk = x_ref, (p_ref + p_ref.T) / 2
        ukf.est_x = xk.copy()
        ukf.est_p = pk.copy()
        if float(np.linalg.eigvalsh(pk).min()) <= 0:
            break
