"""C07 - tasking decisions are feasible and optimal in the sense each policy documents."""

from __future__ import annotations

import itertools

import numpy as np
from hypothesis import strategies as st

from vf import scenario_kit as kit  # noqa: F401  (installs the Ray double before resonaate is imported: the engine clause builds a scenario)
from vf.runner import Prop, Violation

PROP = Prop(
    "C07",
    rule=(
        "small_exhaustive: complete enumeration of all (reward, visibility) matrix pairs with rewards in {-1,0,1,2} for every "
        "shape up to 2x3/3x2 (quick) and {0,1,2} at 3x3 plus {-1,0,1,2} at 2x4/4x2 (thorough), all four policies; every "
        "enumerated pair is distinct. random_matrices: Hypothesis shapes up to 40x40 with small-integer (ties guaranteed), float, "
        "negative, all-zero and duplicated-row/column rewards, visibility densities 0..1, row/column relabellings. rewards: metric "
        "tensors for every reward class built through the real factory. Non-trivial = matrix with a tie for the optimum, a negative "
        "reward, or a masked optimal cell."
    ),
    assumptions=[
        "the assignment policy is judged as the property states it: a maximum-weight complete matching of the reward matrix with the "
        "invisible cells set to zero, intersected with visibility; any optimal matching is accepted when there are ties (until S29 "
        "was fixed the check compared with the unmasked matrix, i.e. with what the code did)",
        "optimal value: brute force over all complete matchings for min(N,M) <= 4, subset dynamic programme for min(N,M) <= 10, "
        "scipy.optimize.linear_sum_assignment on the constrained problem beyond that (scipy is trusted base)",
        "relabelling equivariance is asserted only when the optimal matching is unique",
    ],
)

POLICIES = ("MunkresDecision", "MyopicNaiveGreedyDecision", "RandomDecision", "AllVisibleDecision")


_CACHE: dict = {}


def _decision(name, seed=None):
    """Policy object built through the real configuration factory (the validated config model is cached: 12 ms each)."""
    from resonaate.scenario.config import constructFromUnion
    from resonaate.scenario.config.decision_config import DecisionConfig
    from resonaate.tasking.decisions import decisionFactory

    if name != "RandomDecision":
        if name not in _CACHE:
            _CACHE[name] = decisionFactory(constructFromUnion(DecisionConfig, {"name": name}))
        return _CACHE[name]
    if "random_cfg" not in _CACHE:
        _CACHE["random_cfg"] = constructFromUnion(DecisionConfig, {"name": name, "seed": 0})
    cfg = _CACHE["random_cfg"].model_copy(update={"seed": seed})
    return decisionFactory(cfg)


# ------------------------------------------------------------------------------------------------
# oracles
# ------------------------------------------------------------------------------------------------
def _best_matchings(r):
    """(optimal value, list of optimal complete matchings as frozensets of (i,j)) by brute force.

    Two passes: totals within summation rounding (2e-12 relative) of the maximum count as optimal. (A single pass that compared
    with a running best +- 1e-12 dropped the matching 1 + 1e-12 found after 1.0: 1.0 + 1e-12 - 1.0 = 1.00009e-12 fell between
    its two branches - a false alarm of the thorough tier.)"""
    n, m = r.shape
    cands = []
    if n <= m:
        for cols in itertools.permutations(range(m), n):
            cands.append((sum(r[i, cols[i]] for i in range(n)), frozenset((i, cols[i]) for i in range(n))))
    else:
        for rows in itertools.permutations(range(n), m):
            cands.append((sum(r[rows[j], j] for j in range(m)), frozenset((rows[j], j) for j in range(m))))
    best = max(val for val, _ in cands)
    slack = 2e-12 * (1.0 + abs(best))
    return best, [sol for val, sol in cands if val >= best - slack]


def _dp_opt(r, forced=(), forbidden=()):
    """Maximum weight of a complete matching (min(N,M) pairs) by DP over column subsets; rows are the shorter side."""
    a = np.array(r, dtype=float)
    forced = set(forced)
    forbidden = set(forbidden)
    transposed = a.shape[0] > a.shape[1]
    if transposed:
        a = a.T
        forced = {(j, i) for i, j in forced}
        forbidden = {(j, i) for i, j in forbidden}
    n, m = a.shape
    neg = -1e18
    frow = {i: j for i, j in forced}
    fcol = {j: i for i, j in forced}
    dp = {0: 0.0}
    for i in range(n):
        nxt = {}
        for mask, val in dp.items():
            for j in range(m):
                if mask >> j & 1:
                    continue
                if (i, j) in forbidden:
                    continue
                if i in frow and frow[i] != j:
                    continue
                if j in fcol and fcol[j] != i:
                    continue
                v = val + a[i, j]
                k = mask | (1 << j)
                if v > nxt.get(k, neg):
                    nxt[k] = v
        dp = nxt
        if not dp:
            return None
    # forced pairs whose row is on the long side must still be used: rows = short side are all used; a forced column whose
    # partner row exists is guaranteed above. (forced pairs always name a short-side row because every short-side row is matched)
    return max(dp.values())


def _lsa_opt(r, forced=(), forbidden=()):
    from scipy.optimize import linear_sum_assignment

    a = np.array(r, dtype=float)
    big = 1e6 * (1.0 + np.abs(a).max())
    b = a.copy()
    for i, j in forbidden:
        b[i, j] = -big
    for i, j in forced:
        row, col = b[i, :].copy(), b[:, j].copy()
        b[i, :] = -big
        b[:, j] = -big
        b[i, j] = a[i, j]
        del row, col
    ri, ci = linear_sum_assignment(b, maximize=True)
    if np.any(b[ri, ci] <= -big / 2):
        return None
    return float(a[ri, ci].sum())


def _check_munkres(r, v, d, rec, want_unique=False):
    # "a maximum-total-reward complete one-to-one assignment of the reward matrix MASKED BY VISIBILITY": a pair the sensor cannot
    # see contributes nothing, whatever reward the caller's matrix holds there
    r_given = r
    r = np.where(v, r, 0.0)
    n, m = r.shape
    k = min(n, m)
    if np.any(d & ~v):
        raise Violation("munkres_not_visible", f"assignment tasks an invisible pair: R={r.tolist()} V={v.astype(int).tolist()} D={d.astype(int).tolist()}")
    if np.any(d.sum(axis=0) > 1) or np.any(d.sum(axis=1) > 1):
        raise Violation("munkres_not_one_to_one", f"assignment is not one-to-one: R={r.tolist()} V={v.astype(int).tolist()} D={d.astype(int).tolist()}")
    pairs = [(int(i), int(j)) for i, j in zip(*np.nonzero(d))]
    other_visible = [(int(i), int(j)) for i, j in zip(*np.nonzero(v & ~d))]
    if k <= 4 and max(n, m) <= 5:
        best, sols = _best_matchings(r)
        ok = any(frozenset(p for p in sol if v[p]) == frozenset(pairs) for sol in sols)
        unique = len(sols) == 1
    else:
        small = max(n, m) <= 12
        solve = _dp_opt if small else _lsa_opt
        opt = solve(r)
        con = solve(r, forced=pairs, forbidden=other_visible)
        ok = con is not None and abs(con - opt) <= 1e-9 * (1 + abs(opt))
        unique = None
        if ok and want_unique:
            # the optimum is unique iff forbidding any one edge of an optimal matching strictly lowers the optimum
            from scipy.optimize import linear_sum_assignment

            ri, ci = linear_sum_assignment(r, maximize=True)
            unique = True
            for i, j in zip(ri, ci):
                alt = solve(r, forbidden=[(int(i), int(j))])
                if alt is not None and alt >= opt - 1e-9 * (1 + abs(opt)):
                    unique = False
                    break
    if not ok:
        raise Violation("munkres_not_optimal", f"decision is not (a maximum-weight complete one-to-one assignment of the reward matrix masked by visibility) & visibility: R={np.asarray(r_given).tolist()} V={v.astype(int).tolist()} D={d.astype(int).tolist()}")
    return unique


def _check_greedy(r, v, d):
    if np.any(d & ~v):
        raise Violation("greedy_not_visible", f"greedy tasks an invisible pair: R={r.tolist()} V={v.astype(int).tolist()} D={d.astype(int).tolist()}")
    if np.any(d.sum(axis=0) > 1):
        raise Violation("greedy_multi", f"greedy tasks a sensor to several targets: D={d.astype(int).tolist()}")
    for j in range(r.shape[1]):
        cmax = r[:, j].max()
        rows = np.nonzero(d[:, j])[0]
        if len(rows) == 1:
            if r[rows[0], j] != cmax:
                raise Violation("greedy_not_max", f"sensor {j} is tasked to target {rows[0]} with reward {r[rows[0], j]} but its highest reward is {cmax}: R={r.tolist()} V={v.astype(int).tolist()}")
        else:
            # untasked: legitimate only if some maximal-reward target of this sensor is not visible
            if all(v[i, j] for i in range(r.shape[0]) if r[i, j] == cmax):
                raise Violation("greedy_untasked", f"sensor {j} is not tasked although all its highest-reward targets are visible: R={r.tolist()} V={v.astype(int).tolist()} D={d.astype(int).tolist()}")


def _check_random(v, d):
    if np.any(d & ~v):
        raise Violation("random_not_visible", f"random policy tasks an invisible pair: V={v.astype(int).tolist()} D={d.astype(int).tolist()}")
    want = (v.sum(axis=0) > 0).astype(int)
    if not np.array_equal(d.sum(axis=0), want):
        raise Violation("random_count", f"random policy must task exactly one visible target per sensor that sees anything: V={v.astype(int).tolist()} D={d.astype(int).tolist()}")


def _run_all(r, v, rec, seed=0, want_unique=False):
    r = np.array(r, dtype=float)
    v = np.array(v, dtype=bool)
    out = {}
    for name in POLICIES:
        d = np.asarray(_decision(name, seed).calculate(r.copy(), v.copy()))
        if d.shape != r.shape or d.dtype != bool:
            raise Violation("shape", f"{name} returned shape {d.shape} dtype {d.dtype} for reward shape {r.shape}")
        out[name] = d
    uniq = _check_munkres(r, v, out["MunkresDecision"], rec, want_unique)
    _check_greedy(r, v, out["MyopicNaiveGreedyDecision"])
    _check_random(v, out["RandomDecision"])
    if not np.array_equal(out["AllVisibleDecision"], v):
        raise Violation("all_visible", f"all-visible policy must task exactly the visible pairs: V={v.astype(int).tolist()} D={out['AllVisibleDecision'].astype(int).tolist()}")
    return out, uniq


# ------------------------------------------------------------------------------------------------
VALUES = (-1.0, 0.0, 1.0, 2.0)


def _decode(shape, values, idx):
    n, m = shape
    cells = n * m
    base = len(values)
    r = np.empty(cells)
    for c in range(cells):
        idx, q = divmod(idx, base)
        r[c] = values[q]
    v = np.array([(idx >> c) & 1 for c in range(cells)], dtype=bool)
    return r.reshape(n, m), v.reshape(n, m)


@PROP.clause("small_exhaustive", quick=16, thorough=16, shards=16, thorough_shards=16)
def small_exhaustive(c, rec):
    """every (reward, visibility) pair of a small shape: all four policies feasible and optimal as documented"""
    if "R" in c:
        _run_all(c["R"], c["V"], rec, c.get("seed", 0))
        rec.nontrivial(str(c["R"]) + str(c["V"]))
        return
    shape, values = tuple(c["shape"]), tuple(c["values"])
    lo, hi = c["lo"], c["hi"]
    nt = 0
    for idx in range(lo, hi):
        r, v = _decode(shape, values, idx)
        try:
            _run_all(r, v, rec, seed=idx % 7)
        except Violation as e:
            e.case = {"R": r.tolist(), "V": v.astype(int).tolist(), "seed": idx % 7}
            raise
        # non-trivial: tie for a column/overall maximum, a negative reward, or a maximal cell that is masked
        if (r < 0).any() or len(np.unique(r)) < r.size or (~v[r == r.max()]).any():
            nt += 1
    rec.bulk(hi - lo - 1, nt)
    rec.label(f"shape{shape[0]}x{shape[1]}", hi - lo)


@PROP.sweep("small_exhaustive")
def small_cases(ctx):
    quick_shapes = [((1, 1), VALUES), ((1, 2), VALUES), ((2, 1), VALUES), ((1, 3), VALUES), ((3, 1), VALUES), ((2, 2), VALUES),
                    ((2, 3), VALUES), ((3, 2), VALUES)]
    thorough_extra = [((3, 3), (0.0, 1.0, 2.0)), ((2, 4), VALUES), ((4, 2), VALUES), ((1, 4), VALUES), ((4, 1), VALUES)]
    shapes = quick_shapes + (thorough_extra if ctx["tier"] == "thorough" else [])
    shard, nshards = ctx["shard"], ctx["nshards"]
    for shape, values in shapes:
        cells = shape[0] * shape[1]
        total = (len(values) ** cells) * (2**cells)
        per = -(-total // nshards)
        lo, hi = shard * per, min(total, (shard + 1) * per)
        step = 20000
        for a in range(lo, hi, step):
            yield {"shape": list(shape), "values": list(values), "lo": a, "hi": min(hi, a + step)}


# ------------------------------------------------------------------------------------------------
@st.composite
def _matrices(draw):
    n = draw(st.one_of(st.integers(1, 6), st.integers(1, 40)))
    m = draw(st.one_of(st.integers(1, 6), st.integers(1, 40)))
    kind = draw(st.sampled_from(["smallint", "smallint", "float", "negative", "zero", "dup", "pos"]))
    cells = n * m
    if kind == "smallint":
        vals = draw(st.lists(st.integers(-1, 3), min_size=cells, max_size=cells))
    elif kind == "float":
        vals = draw(st.lists(st.floats(-5, 5), min_size=cells, max_size=cells))
    elif kind == "pos":
        vals = draw(st.lists(st.floats(0, 1), min_size=cells, max_size=cells))
    elif kind == "negative":
        vals = draw(st.lists(st.floats(-5, -0.1), min_size=cells, max_size=cells))
    elif kind == "zero":
        vals = [0.0] * cells
    else:
        row = draw(st.lists(st.integers(0, 3), min_size=m, max_size=m))
        vals = [float(x) for _ in range(n) for x in row]
    dens = draw(st.sampled_from([0.0, 0.2, 0.5, 0.8, 1.0]))
    vis = draw(st.lists(st.floats(0, 1), min_size=cells, max_size=cells))
    v = [[1 if vis[i * m + j] < dens else 0 for j in range(m)] for i in range(n)]
    r = [[float(vals[i * m + j]) for j in range(m)] for i in range(n)]
    rp = draw(st.permutations(list(range(n))))
    cp = draw(st.permutations(list(range(m))))
    return {"R": r, "V": v, "rp": list(rp), "cp": list(cp), "seed": draw(st.integers(0, 2**31 - 1)), "kind": kind}


@PROP.clause("random_matrices", strategy=_matrices, quick=2500, thorough=60000, shards=8)
def random_matrices(c, rec):
    """random shapes up to 40x40: feasibility/optimality of each policy and equivariance under relabelling sensors/targets"""
    r = np.array(c["R"], dtype=float)
    v = np.array(c["V"], dtype=bool)
    out, uniq = _run_all(r, v, rec, c["seed"], want_unique=True)
    ties = len(np.unique(r)) < r.size
    if ties or (r < 0).any() or (v.size and (~v[r == r.max()]).any()):
        rec.nontrivial([r.shape, c["kind"], int(v.sum()), hash(str(c["R"])) % 100000])
    rec.label("kind:" + c["kind"])
    if max(r.shape) > 6:
        rec.label("large")
    # relabelling: permute rows/columns, decisions must be permuted accordingly - asserted only where the documented choice
    # is unique (ties are legitimately order dependent): greedy when every column maximum is unique, assignment when the
    # optimal matching is unique (distinct entries are NOT enough: different matchings can have equal sums)
    rp, cp = np.array(c["rp"]), np.array(c["cp"])
    r2, v2 = r[rp][:, cp], v[rp][:, cp]
    out2, _u2 = _run_all(r2, v2, rec, c["seed"])
    if not np.array_equal(out2["AllVisibleDecision"], out["AllVisibleDecision"][rp][:, cp]):
        raise Violation("relabel_all_visible", "all-visible decision not equivariant under relabelling")
    if all((r[:, j] == r[:, j].max()).sum() == 1 for j in range(r.shape[1])):
        rec.label("relabel_checked_greedy")
        if not np.array_equal(out2["MyopicNaiveGreedyDecision"], out["MyopicNaiveGreedyDecision"][rp][:, cp]):
            raise Violation("relabel:MyopicNaiveGreedyDecision", f"greedy: relabelling sensors/targets does not relabel the decision (unique column maxima): R={c['R']} V={c['V']} rows {c['rp']} cols {c['cp']}")
    if uniq:
        rec.label("relabel_checked_munkres")
        if not np.array_equal(out2["MunkresDecision"], out["MunkresDecision"][rp][:, cp]):
            raise Violation("relabel:MunkresDecision", f"assignment: unique optimal matching but the relabelled decision differs: R={c['R']} V={c['V']} rows {c['rp']} cols {c['cp']}")
    # RandomDecision with the same seed is reproducible
    d1 = _decision("RandomDecision", c["seed"]).calculate(r.copy(), v.copy())
    if not np.array_equal(d1, out["RandomDecision"]):
        raise Violation("random_seed", "RandomDecision with the same seed gave a different decision")


# ------------------------------------------------------------------------------------------------
REWARD_SPECS = [
    ("SimpleSummationReward", ["TimeSinceObservation"]),
    ("SimpleSummationReward", ["ShannonInformation", "LyapunovStability", "SlewDistanceMinimization", "Range"]),
    ("SimpleSummationReward", ["PositionCovarianceTrace", "VelocityCovarianceTrace"]),
    ("CostConstrainedReward", ["ShannonInformation", "LyapunovStability", "SlewDistanceMinimization"]),
    ("CostConstrainedReward", ["SlewTimeMinimization", "FisherInformation", "LyapunovStability"]),
    ("CombinedReward", ["ShannonInformation", "LyapunovStability", "SlewDistanceMinimization", "TimeSinceObservation"]),
    ("CombinedReward", ["TimeSinceObservation", "SlewTimeMaximization", "LyapunovStability", "KLDivergence"]),
]


@st.composite
def _reward_cases(draw):
    spec = draw(st.integers(0, len(REWARD_SPECS) - 1))
    n = draw(st.integers(1, 5))
    m = draw(st.integers(1, 5))
    p = len(REWARD_SPECS[spec][1])
    kind = draw(st.sampled_from(["pos", "mixed", "zero_layer", "neg_layer"]))
    vals = draw(st.lists(st.floats(-3, 10) if kind != "pos" else st.floats(0, 10), min_size=n * m * p, max_size=n * m * p))
    t = np.array(vals).reshape(n, m, p)
    if kind == "zero_layer":
        t[..., 0] = 0.0
    if kind == "neg_layer":
        t[..., -1] = -np.abs(t[..., -1]) - 0.1
    return {"spec": spec, "T": t.tolist(), "kind": kind}


@PROP.clause("rewards", strategy=_reward_cases, quick=2500, thorough=60000, shards=2)
def rewards(c, rec):
    """normalised metrics are at most one; reward == documented combination of the (normalised) metrics for every reward class"""
    from resonaate.common.labels import MetricTypeLabel
    from resonaate.scenario.config import constructFromUnion
    from resonaate.scenario.config.reward_config import RewardConfig
    from resonaate.tasking.rewards import rewardsFactory

    name, metrics = REWARD_SPECS[c["spec"]]
    reward = rewardsFactory(constructFromUnion(RewardConfig, {"name": name, "metrics": [{"name": x} for x in metrics]}))
    t = np.array(c["T"], dtype=float)
    n, m, p = t.shape
    if n == 1 or m == 1 or c["kind"] != "pos":
        rec.nontrivial([name, n, m, c["kind"], hash(str(c["T"])) % 100000])
    norm = reward.normalizeMetrics(t.copy())
    if norm.shape != t.shape:
        raise Violation("normalize_shape", f"normalizeMetrics changed the shape {t.shape} -> {norm.shape}")
    for k in range(p):
        layer, orig = norm[..., k], t[..., k]
        if layer.max() > 1.0 + 1e-12:
            raise Violation("normalize_max", f"{name}: normalised metric {metrics[k]} has maximum {layer.max()!r} > 1")
        mx = orig.max()
        want = orig / mx if mx > 0 else orig
        if not np.allclose(layer, want, rtol=1e-12, atol=0):
            raise Violation("normalize_value", f"{name}: metric {metrics[k]} normalised to {layer.tolist()}, expected {want.tolist()}")
    got = np.asarray(reward.calculate(norm.copy()), dtype=float)
    types = [mt.metric_type for mt in reward.metrics]

    def layer_of(tp):
        idx = [i for i, x in enumerate(types) if x == tp]
        assert len(idx) == 1
        return norm[..., idx[0]]

    if name == "SimpleSummationReward":
        want = norm.sum(axis=2)
    else:
        delta = 0.85
        want = delta * (np.sign(layer_of(MetricTypeLabel.STABILITY)) + layer_of(MetricTypeLabel.INFORMATION)) - (1 - delta) * layer_of(MetricTypeLabel.SENSOR)
        if name == "CombinedReward":
            want = want + layer_of(MetricTypeLabel.TARGET)
    if got.size != n * m:
        raise Violation("reward_size", f"{name}: reward has {got.size} entries for a {n}x{m} problem")
    if not np.allclose(got.reshape(n, m), want, rtol=1e-12, atol=1e-15):
        raise Violation("reward_value", f"{name}({metrics}): reward {got.reshape(n, m).tolist()} != documented combination {want.tolist()} of metrics {norm.tolist()}")


def finish_evidence(evidence, recs):
    evidence["coverage"]["exhaustive_part"] = ("small_exhaustive enumerates its finite domain completely (counts per shape in "
                                               "clauses.small_exhaustive.labels); the other clauses are sampled")


# ------------------------------------------------------------------------------------------------
# the same predicates through the tasking engine (the decision the engine stores in the tasks table)
# ------------------------------------------------------------------------------------------------
_ENGINES: dict = {}


def _engine(policy):
    """A real CentralizedTaskingEngine (3 targets x 2 sensors) with the named policy, built through the scenario builder."""
    if policy not in _ENGINES:
        from datetime import datetime, timedelta

        from vf import scenario_kit as kit

        t0 = datetime(2019, 3, 4, 12, 0, 0)
        sens = [kit.ground_sensor(27001 + i, 10.0 + i, 20.0 - i, kind="adv_radar") for i in range(2)]
        tgts = [kit.eci_target(17001 + j, kit.circular_state_over(10.0, 20.0, t0, 20000.0 + 300.0 * j, heading_deg=40.0 * j)) for j in range(3)]
        extra = {"seed": 11} if policy == "RandomDecision" else None
        cfg = kit.scenario_config(t0, t0 + timedelta(seconds=300), 60, [kit.engine(1, sens, tgts, decision=policy, decision_extra=extra)])
        _ENGINES[policy] = kit.build(cfg).tasking_engines[1]
    return _ENGINES[policy]


def _engine_cases():
    small = st.sampled_from([-1.0, 0.0, 0.0, 1.0, 2.0])
    rows = st.one_of(st.lists(small, min_size=6, max_size=6), st.lists(st.floats(-2, 2), min_size=6, max_size=6),
                     st.sampled_from([[0.0] * 6, [1.0] * 6, [-1.0] * 6]))
    return st.builds(lambda r, v, p: {"r": r, "v": v, "policy": p}, rows, st.lists(st.booleans(), min_size=6, max_size=6), st.sampled_from(POLICIES))


@PROP.clause("engine_tasking", strategy=_engine_cases, quick=1200, thorough=40000, shards=4)
def engine_tasking(c, rec):
    """generateTasking() of a real tasking engine: the decision it stores obeys the same per-policy predicates for any reward/visibility matrices"""
    eng = _engine(c["policy"])
    r = np.array(c["r"], dtype=float).reshape(3, 2)
    v = np.array(c["v"], dtype=bool).reshape(3, 2)
    eng.reward_matrix = r.copy()
    eng.visibility_matrix = v.copy()
    eng.generateTasking()
    d = np.asarray(eng.decision_matrix, dtype=bool)
    if d.shape != r.shape:
        raise Violation("engine_decision_shape", f"decision matrix of shape {d.shape} for a {r.shape} problem")
    if not r.any() or len(set(c["r"])) < len(c["r"]):
        rec.nontrivial([c["policy"], tuple(c["r"]), tuple(c["v"])])
    rec.label("all_zero_rewards" if not r.any() else "rewards")
    if c["policy"] == "MunkresDecision":
        _check_munkres(r, v, d, rec)
    elif c["policy"] == "MyopicNaiveGreedyDecision":
        _check_greedy(r, v, d)
    elif c["policy"] == "RandomDecision":
        _check_random(v, d)
    elif not np.array_equal(d, v):
        raise Violation("all_visible", f"all-visible policy through the engine: decision {d.astype(int).tolist()} != visibility {v.astype(int).tolist()} (rewards {r.tolist()})")


# ------------------------------------------------------------------------------------------------
# the whole assess() of a running scenario: the decision stored with a step is judged against the rewards stored with it
# ------------------------------------------------------------------------------------------------
def _assess_cases():
    return st.builds(
        lambda p, tgt, pr, tau, tau_end, el: {"policy": p, "prio_target": tgt, "priority": pr, "tau": tau, "tau_end": tau_end, "min_el": el},
        st.sampled_from(POLICIES), st.integers(0, 2), st.sampled_from([0.25, 0.5, 2.0, 5.0, 10.0]), st.sampled_from([0, 60, 120]),
        st.sampled_from([60, 120, 180, 240]), st.sampled_from([0.0, 0.0, 30.0]))


@PROP.clause("engine_assess", strategy=_assess_cases, quick=40, thorough=1200, shards=4)
def engine_assess(c, rec):
    """three real scenario steps with a task-priority event: after every assess() the stored decision is feasible/optimal for the stored (priority-scaled) rewards and visibility, and the task rows carry exactly those matrices"""
    from datetime import datetime, timedelta

    t0 = datetime(2019, 3, 4, 12, 0, 0)
    dt = 60
    sens = [kit.ground_sensor(27001 + i, 10.0 + i, 20.0 - i, kind="adv_radar", elevation_mask=[c["min_el"], 90.0] if c["min_el"] else None) for i in range(2)]
    for s in sens:
        if s["sensor"].get("elevation_mask") is None:
            s["sensor"].pop("elevation_mask", None)
    tgts = [kit.eci_target(17001 + j, kit.circular_state_over(10.0, 20.0, t0, 20000.0 + 300.0 * j, heading_deg=40.0 * j)) for j in range(3)]
    extra = {"seed": 11} if c["policy"] == "RandomDecision" else None
    tau_end = max(c["tau_end"], c["tau"] + 60)
    ev = {"scope": "task_reward_generation", "scope_instance_id": 1, "start_time": kit.iso(t0 + timedelta(seconds=c["tau"])),
          "end_time": kit.iso(t0 + timedelta(seconds=tau_end)), "event_type": "task_priority", "target_id": 17001 + c["prio_target"],
          "target_name": f"tgt{17001 + c['prio_target']}", "priority": c["priority"], "is_dynamic": False}
    cfg = kit.scenario_config(t0, t0 + timedelta(seconds=5 * dt), dt, [kit.engine(1, sens, tgts, decision=c["policy"], decision_extra=extra)], events=[ev])
    sc = kit.build(cfg)
    eng = sc.tasking_engines[1]
    given = {}
    orig = eng.decision.calculate

    def spy(reward_matrix, visibility_matrix):
        given["r"] = np.array(reward_matrix, dtype=float)
        given["v"] = np.array(visibility_matrix, dtype=bool)
        return orig(reward_matrix, visibility_matrix)

    eng.decision.calculate = spy
    try:
        for j in range(1, 4):
            given.clear()
            sc.stepForward()
            r = np.array(eng.reward_matrix, dtype=float)
            v = np.array(eng.visibility_matrix, dtype=bool)
            d = np.array(eng.decision_matrix, dtype=bool)
            if "r" not in given:
                # the engine reached its policy some other way than Decision.calculate(): the stored matrices are still judged below
                rec.label("policy_call_not_observed")
            elif not np.array_equal(given["r"], r) or not np.array_equal(given["v"], v):
                raise Violation("assess_decided_on_other_rewards", f"step {j}: the policy decided on rewards {given['r'].tolist()} / visibility {given['v'].astype(int).tolist()}, but the engine reports rewards {r.tolist()} / visibility {v.astype(int).tolist()} for that step")
            active = c["tau"] <= j * dt and tau_end > (j - 1) * dt
            row = c["prio_target"]
            if active and v[row].any() and np.any(r[row] != 0):
                rec.label("priority_active_on_visible_target")
                others = np.delete(np.where(v, r, -np.inf), row, axis=0)
                if np.any((np.where(v, r, -np.inf)[row] > others.max(axis=0)) != (np.where(v, r / np.where(np.arange(3)[:, None] == row, c["priority"], 1.0), -np.inf)[row] > others.max(axis=0))):
                    rec.nontrivial([c["policy"], row, c["priority"], j, tuple(v.ravel().tolist())])
                    rec.label("priority_changes_a_sensor_optimum")
            if c["policy"] == "MunkresDecision":
                _check_munkres(r, v, d, rec)
            elif c["policy"] == "MyopicNaiveGreedyDecision":
                _check_greedy(r, v, d)
            elif c["policy"] == "RandomDecision":
                _check_random(v, d)
            elif not np.array_equal(d, v):
                raise Violation("all_visible", f"step {j}: all-visible policy through assess(): decision {d.astype(int).tolist()} != visibility {v.astype(int).tolist()}")
            from resonaate.physics.time.stardate import datetimeToJulianDate

            for task in eng.getCurrentTasking(datetimeToJulianDate(t0 + timedelta(seconds=j * dt))):
                ti, si = eng.target_indices[task.target_id], eng.sensor_indices[task.sensor_id]
                if bool(task.decision) != bool(d[ti, si]) or bool(task.visibility) != bool(v[ti, si]) or float(task.reward) != float(r[ti, si]):
                    raise Violation("task_row", f"step {j}: task row ({task.sensor_id},{task.target_id}) = (vis {task.visibility}, reward {task.reward}, decision {task.decision}) but the engine's matrices say ({v[ti, si]}, {r[ti, si]}, {d[ti, si]})")
    finally:
        eng.decision.calculate = orig
