"""C02 - reported observations satisfy all sensor constraints; misses state a true reason."""

from __future__ import annotations

import math
from datetime import timedelta

import numpy as np
from hypothesis import strategies as st

from vf import scenario_kit as kit  # installs the Ray double before resonaate is imported
from vf.oracles import geodesy, kepler
from vf.runner import HarnessError, Prop, Skip, Violation
from vf.strategies.instants import eop_instants, iso, parse

PI, TWOPI = math.pi, 2 * math.pi
RE = 6378.1363

PROP = Prop(
    "C02",
    rule=(
        "Hypothesis: sensor kind {optical, radar, adv_radar} x host {ground site, spacecraft}; azimuth masks incl. wrap-through-north, "
        "elevation masks, conic / rectangular FoV, range limits, slew rate with a drawn previous boresight, radar power/frequency/"
        "sensitivity, optical limiting magnitude; epoch; the primary target placed relative to the sensor in (az, el, range) either "
        "uniformly or next to a constraint boundary (mask edges, az 0/360, zenith, range limits, FoV edge, slew limit); estimate = truth "
        "+ offset; 0-3 background targets around the pointing direction; the objects are real SensingAgent/TargetAgent instances of a "
        "real Scenario stepped once, the call is the real Sensor.collectObservations. Non-trivial = some constraint within 5% of its "
        "limit or the primary missed for a non-FoV reason; distinct by (kind, host, failing-constraint set, FoV shape, probe)."
    ),
    assumptions=[
        "independent evaluation: own topocentric geometry (ellipsoid normal frame from an iterative geodetic solution), own segment-"
        "sphere line of sight, wrapped-azimuth FoV test, slew test on the pre-call boresight, documented radar range equation, "
        "documented Lambertian magnitude formula, own two-disk Sun visibility, galactic-centre cone from catalogue coordinates; the "
        "Sun position is the simulator's ephemeris value (data, cross-checked in C13); ECI<->ECEF rotation is C04's subject",
        "verdicts are compared outside guard bands (1e-6 rad, 1e-4 km, 1e-4 mag); cases inside a band are counted as boundary_skipped",
    ],
)
PROP.selftest(kepler.selftest)
PROP.selftest(geodesy.selftest)


@PROP.known("K2-initial-boresight")
def known_initial_boresight(clause, case, viol):
    """Exactly the documented finding: the initial boresight of a new sensor (clause initial_boresight, direction mismatch)."""
    return clause == "initial_boresight" and viol.label == "initial_boresight"

TID, SID = 16001, 26001
G_ANG, G_KM, G_MAG = 1e-6, 1e-4, 1e-4
GAL_RA, GAL_DEC = math.radians(266.41683), math.radians(-29.00781)  # Sgr A* (J2000)


@st.composite
def _cases(draw):
    t0 = draw(eop_instants(margin_days=3))
    kind = draw(st.sampled_from(["optical", "radar", "adv_radar"]))
    host = draw(st.sampled_from(["ground", "ground", "space"]))
    probe = draw(st.sampled_from(["uniform", "uniform", "el_edge", "az_edge", "range_edge", "fov_edge", "slew_edge", "zenith", "az_seam", "low", "limb_edge"]))
    if probe == "limb_edge":
        host, kind = "space", "optical"  # a target seen just above / through the atmosphere band at the Earth's limb (an optical rule)
    dt = draw(st.sampled_from([30, 60]))
    az0 = draw(st.floats(0, 360, exclude_max=True))
    azw = draw(st.one_of(st.floats(20, 359.9), st.just(359.9999)))
    el0 = draw(st.floats(-5, 40)) if host == "ground" else draw(st.floats(-80, 10))
    elw = draw(st.floats(20, 89.9 - el0))
    if probe == "limb_edge":
        el0, elw = -85.0, 170.0
    fov = draw(st.sampled_from([{"fov_shape": "conic", "cone_angle": a} for a in (1.0, 4.0, 30.0, 179.0)] +
                               [{"fov_shape": "rectangular", "azimuth_angle": a, "elevation_angle": b} for a, b in ((1.0, 1.0), (6.0, 3.0), (40.0, 20.0))]))
    case = {
        "start": iso(t0), "kind": kind, "host": host, "probe": probe, "dt": dt,
        "lat": draw(st.floats(-70, 70)), "lon": draw(st.floats(-180, 180)), "salt_r": draw(st.sampled_from([7000.0, 8000.0, 26000.0])),
        "az_mask": [az0, (az0 + azw) % 360.0], "el_mask": [el0, el0 + elw], "el_reversed": draw(st.booleans()), "fov": fov,
        "min_range": draw(st.sampled_from([None, 0.0, 500.0])), "max_range": draw(st.sampled_from([None, 3000.0, 40000.0])),
        "slew": draw(st.sampled_from([0.01, 0.3, 3.0, 30.0])), "bore_off": draw(st.sampled_from([0.05, 1.0, 5.0, 30.0, 150.0])), "bore_dir": draw(st.floats(0, 360)),
        "u": [draw(st.floats(0, 1)) for _ in range(4)], "edge_eps": draw(st.sampled_from([-1e-3, -1e-5, 1e-5, 1e-3, -0.05, 0.05])),
        "est_off": draw(st.sampled_from([0.0, 0.0, 1.0, 30.0, 400.0])), "est_dir": [draw(st.floats(-1, 1)) for _ in range(3)],
        "bg": [{"daz": draw(st.floats(-3, 3)), "del": draw(st.floats(-3, 3)), "rho": draw(st.floats(0.5, 1.5))} for _ in range(draw(st.integers(0, 3)))],
        "tx_power": draw(st.sampled_from([2.5e6, 6e4, 1e3])), "vcs": draw(st.sampled_from([1.0, 10.0, 100.0])), "vismag": draw(st.sampled_from([25.0, 14.0, 8.0])),
        "noise": draw(st.booleans()), "corr": draw(st.sampled_from([0.0, 0.0, 0.6, -0.8])),
    }
    if probe == "limb_edge":
        # keep the other constraints out of the way: reachable slew, wide field of view, no range limits
        case.update(slew=30.0, bore_off=0.05, max_range=None, min_range=None, est_off=0.0, vismag=25.0, vcs=100.0,
                    fov={"fov_shape": "conic", "cone_angle": 30.0})
    return case


# ------------------------------------------------------------------------------------------------
def _sez_dir(az, el):
    return np.array([-math.cos(el) * math.cos(az), math.cos(el) * math.sin(az), math.sin(el)])


def _angle(u, v):
    u, v = np.asarray(u, float), np.asarray(v, float)
    return math.atan2(np.linalg.norm(np.cross(u, v)), float(u.dot(v)))


def _frame(sensor_eci, when):
    """ECI->ECEF rotation Q, sensor geodetic lat/lon (independent iterative solution), SEZ basis rows in ECEF."""
    from resonaate.physics.bodies import Earth
    from resonaate.physics.transforms.methods import eci2ecef

    q = np.column_stack([eci2ecef(np.eye(6)[i], when)[:3] for i in range(3)])
    s_ecef = eci2ecef(np.asarray(sensor_eci, float), when)
    lat, lon, _alt = geodesy.ecef2lla(s_ecef[:3], Earth.radius, Earth.eccentricity**2)
    e, n, u = geodesy.enu_basis(lat, lon)
    m = np.vstack([-n, e, u])  # rows: S, E, Z
    return q, s_ecef, m


def _overlap_fraction(a, b, c):
    if c >= a + b:
        return 1.0
    if c <= abs(b - a):
        return 0.0 if b >= a else 1.0 - (b / a) ** 2
    ca = (c * c + a * a - b * b) / (2 * c * a)
    cb = (c * c + b * b - a * a) / (2 * c * b)
    al, be = math.acos(max(-1, min(1, ca))), math.acos(max(-1, min(1, cb)))
    return 1.0 - (a * a * (al - math.sin(al) * math.cos(al)) + b * b * (be - math.sin(be) * math.cos(be))) / (PI * a * a)


def _evaluate(c, sensor_eci, tgt_eci, point_sez_dir, when, jd, bore_prev, slew_budget, vcs, refl):
    """Independent evaluation of every constraint.  Returns dict name -> (holds, margin) with margin in the constraint's unit
    (positive = satisfied), plus the measurement."""
    from resonaate.physics import constants as const
    from resonaate.physics.bodies import Earth
    from resonaate.physics.bodies.third_body import Sun
    from resonaate.physics.transforms.methods import eci2ecef

    q, s_ecef, m = _frame(sensor_eci, when)
    t_ecef = eci2ecef(np.asarray(tgt_eci, float), when)
    rel = t_ecef - s_ecef
    sez = m @ rel[:3]
    sez_v = m @ rel[3:]
    rho = float(np.linalg.norm(sez))
    el = math.asin(max(-1.0, min(1.0, sez[2] / rho)))
    az = math.atan2(sez[1], -sez[0]) % TWOPI
    rr = float(sez.dot(sez_v) / rho)
    out = {}
    band = {}
    # slew (pre-call boresight) and field of view about the commanded pointing
    out["slew"] = slew_budget - _angle(point_sez_dir, bore_prev)
    band["slew"] = G_ANG
    fov = c["fov"]
    if fov["fov_shape"] == "conic":
        out["fov"] = math.radians(fov["cone_angle"]) / 2 - _angle(sez, point_sez_dir)
    else:
        paz = math.atan2(point_sez_dir[1], -point_sez_dir[0]) % TWOPI
        pel = math.asin(max(-1.0, min(1.0, point_sez_dir[2] / np.linalg.norm(point_sez_dir))))
        d_az = abs((az - paz + PI) % TWOPI - PI)
        out["fov"] = min(math.radians(fov["azimuth_angle"]) / 2 - d_az, math.radians(fov["elevation_angle"]) / 2 - abs(el - pel))
    band["fov"] = G_ANG
    min_r = c["min_range"]
    if c["kind"] != "optical" and min_r is None:
        min_r = (const.SPEED_OF_LIGHT / 1.5e9 / 2) * const.M2KM
    if c["kind"] == "optical" and min_r is None:
        min_r = 0.0
    out["min_range"] = rho - min_r
    out["max_range"] = (c["max_range"] if c["max_range"] is not None else float("inf")) - rho
    band["min_range"] = band["max_range"] = G_KM
    a_, b_ = np.asarray(sensor_eci, float)[:3], np.asarray(tgt_eci, float)[:3]
    d = b_ - a_
    s_par = float(-a_.dot(d)) / float(d.dot(d))
    # obstruction = the segment dips below the reference sphere strictly between its end points (a ground site at high
    # latitude is itself inside the equatorial-radius sphere: an end point is never an obstruction)
    out["los"] = (float(np.linalg.norm(a_ + s_par * d)) - Earth.radius) if 0.0 < s_par < 1.0 else 1.0e9
    band["los"] = 1e-3
    e0, e1 = math.radians(c["el_mask"][0]), math.radians(c["el_mask"][1])
    out["el_mask"] = min(el - e0, e1 - el)
    a0, a1 = math.radians(c["az_mask"][0]), math.radians(c["az_mask"][1])
    width = (a1 - a0) % TWOPI
    pos = (az - a0) % TWOPI
    out["az_mask"] = min(pos, width - pos) if pos <= width else -min(pos - width, TWOPI - pos)
    band["el_mask"] = band["az_mask"] = G_ANG
    if c["kind"] != "optical":
        lam = const.SPEED_OF_LIGHT / 1.5e9
        rcs = 4 * PI * vcs**2 / lam**2
        aux = ((PI * c["tx_power"] * 28.0**4 * 0.95**2) / (64 * lam**2 * 1.0e-15)) ** 0.25 * const.M2KM
        out["radar"] = rcs**0.25 * aux - rho
        band["radar"] = G_KM * 10
    else:
        sun = np.asarray(Sun.getPosition(jd), float)
        sat_sun = sun - b_
        frac = 1.0
        if np.linalg.norm(sun) < np.linalg.norm(sat_sun):
            frac = _overlap_fraction(math.asin(Sun.radius / np.linalg.norm(sat_sun)), math.asin(Earth.radius / np.linalg.norm(b_)), _angle(-b_, sat_sun))
        out["solar_flux"] = frac - 0.0 if frac > 0 else -1.0
        band["solar_flux"] = 1e-4
        phase = _angle(sun - b_, a_ - b_)
        f_phase = 2 * ((PI - phase) * math.cos(phase) + math.sin(phase)) / (3 * PI**2)
        dist = float(np.linalg.norm(d))
        if frac > 0 and f_phase > 0:
            mag = Sun.absolute_magnitude - 2.5 * math.log10((vcs * 1e-6 * refl * f_phase) / dist**2)
            out["vismag"] = c["vismag"] - mag
        else:
            out["vismag"] = -1.0 if f_phase <= 0 else 1.0
        band["vismag"] = G_MAG
        gal = np.array([math.cos(GAL_DEC) * math.cos(GAL_RA), math.cos(GAL_DEC) * math.sin(GAL_RA), math.sin(GAL_DEC)])
        out["galactic"] = _angle(d, gal) - PI / 30
        band["galactic"] = 1e-4
        if c["host"] == "space":
            out["space_light"] = _angle(d, sat_sun) - PI / 12
            band["space_light"] = G_ANG
            out["limb"] = el - (math.asin((Earth.radius + Earth.atmosphere) / np.linalg.norm(a_)) - PI / 2)
            band["limb"] = G_ANG
        else:
            out["ground_light"] = _angle(sun, a_) - (PI / 2 + PI / 12)
            band["ground_light"] = G_ANG
    return out, band, {"azimuth_rad": az, "elevation_rad": el, "range_km": rho, "range_rate_km_p_sec": rr}


REASON = {
    "Minimum Range": "min_range", "Maximum Range": "max_range", "Line of Sight": "los", "Azimuth Mask": "az_mask", "Elevation Mask": "el_mask",
    "Visual Magnitude": "vismag", "Solar Flux": "solar_flux", "Limb of the Earth": "limb", "Space Sensor Illumination": "space_light",
    "Ground Sensor Illumination": "ground_light", "Radar Sensitivity - Max Range": "radar", "Field of View": "fov",
    "Slew Rate/Distance to Target": "slew", "Galactic Exclusion Zone": "galactic",
}


# ------------------------------------------------------------------------------------------------
def _place(c, t1):
    """Sensor state at t1 and the primary target's (az, el, range) from the probe."""
    from resonaate.physics.bodies import Earth
    from resonaate.physics.transforms.methods import ecef2eci

    lat, lon = math.radians(c["lat"]), math.radians(c["lon"])
    if c["host"] == "ground":
        site = geodesy.lla2ecef(lat, lon, 0.3, Earth.radius, Earth.eccentricity**2)
        sensor_t1 = ecef2eci(np.concatenate([site, np.zeros(3)]), t1)
    else:
        sensor_t1 = kit.circular_state_over(c["lat"], c["lon"], t1, c["salt_r"], heading_deg=75.0)
    u = c["u"]
    a0, a1 = c["az_mask"]
    width = (a1 - a0) % 360.0
    e0, e1 = c["el_mask"]
    az = math.radians((a0 + (0.02 + 0.96 * u[0]) * width) % 360.0)
    el = math.radians(e0 + (0.05 + 0.9 * u[1]) * (e1 - e0))
    lo = max(c["min_range"] or 0.0, 300.0)
    hi = min(c["max_range"] or 36000.0, 36000.0 if c["host"] == "ground" else 15000.0)
    if hi <= lo:
        hi = lo + 500.0
    rho = lo + (0.05 + 0.9 * u[2]) * (hi - lo)
    eps = c["edge_eps"]
    p = c["probe"]
    if p == "el_edge":
        el = math.radians((e0 if u[3] < 0.5 else e1)) + eps * 0.1
    elif p == "az_edge":
        az = (math.radians(a0 if u[3] < 0.5 else a1) + eps * 0.1) % TWOPI
    elif p == "range_edge":
        rho = max(250.0, (lo if u[3] < 0.5 else hi) * (1 + eps))
    elif p == "zenith":
        el = PI / 2 - abs(eps) * 0.01
    elif p == "az_seam":
        az = (eps * 0.1) % TWOPI
    elif p == "low":
        el = math.radians(-3.0 + 6.0 * u[3])
    elif p == "limb_edge":
        r_s = float(np.linalg.norm(sensor_t1[:3]))
        shell = Earth.radius + Earth.atmosphere
        # elevation of the top of the atmosphere as seen from the sensor, approached from above and (inside the band) from below
        el = math.asin(shell / r_s) - PI / 2 + (-abs(eps) if u[1] < 0.5 else abs(eps)) * (1.0 if u[3] < 0.5 else 10.0)
        rho = math.sqrt(max(r_s * r_s - shell * shell, 1.0)) * (1.45 + 0.8 * u[2])  # beyond the tangent point, above 150 km again
    el = max(-PI / 2 + 0.02, min(PI / 2 - 1e-7, el))
    return sensor_t1, az, el, rho


@PROP.clause("collect", strategy=_cases, quick=1600, thorough=60000, shards=16)
def collect(c, rec):
    """real collectObservations on real agents: observations satisfy every constraint, a missed primary has exactly one miss record with a true reason, measurements equal the geometry"""
    from resonaate.data.observation import MissedObservation, Observation
    from resonaate.physics.bodies import Earth
    from resonaate.physics.transforms.methods import ecef2eci

    t0 = parse(c["start"])
    dt = c["dt"]
    t1 = t0 + timedelta(seconds=dt)
    kit.install_keyed_noise(scale=1.0 if c["noise"] else 0.0)
    sensor_t1, az, el, rho = _place(c, t1)
    q, s_ecef, m = _frame(sensor_t1, t1)

    def state_at(az_, el_, rho_, speed_dir):
        rel_ecef = m.T @ (_sez_dir(az_, el_) * rho_)
        pos = ecef2eci(np.concatenate([s_ecef[:3] + rel_ecef, np.zeros(3)]), t1)[:3]
        r = np.linalg.norm(pos)
        if r < Earth.radius + 150.0:
            return None
        k = np.cross(pos, speed_dir)
        if np.linalg.norm(k) < 1e-6:
            k = np.cross(pos, [1.0, 0.0, 0.0])
        vel = math.sqrt(kepler.MU / r) * k / np.linalg.norm(k)
        x1 = np.concatenate([pos, vel])
        return x1, kepler.propagate(x1, -dt)

    prim = state_at(az, el, rho, [0.0, 0.0, 1.0])
    if prim is None:
        raise Skip("primary target would be below 150 km altitude")
    x1, x0 = prim
    if np.linalg.norm(x0[:3]) < Earth.radius + 120.0:
        raise Skip("primary target below 120 km at the start")
    if max(np.linalg.norm(x0[:3]), np.linalg.norm(x1[:3])) > 48000.0:
        raise Skip("primary target above the GEO stratification limit (configuration would be rejected)")
    bgs = []
    for b in c["bg"]:
        st_ = state_at((az + math.radians(b["daz"])) % TWOPI, max(-1.5, min(1.5, el + math.radians(b["del"]))), rho * b["rho"], [0.3, 0.2, 1.0])
        if st_ is not None and Earth.radius + 120.0 < np.linalg.norm(st_[1][:3]) < 48000.0 and np.linalg.norm(st_[0][:3]) < 48000.0:
            bgs.append(st_)
    # ---- the real objects -------------------------------------------------------------------------
    # (elevation limits are documented as order independent: a drawn half of the cases configure them high-to-low)
    sensor_over = {"azimuth_range": c["az_mask"], "elevation_range": c["el_mask"][::-1] if c.get("el_reversed") else c["el_mask"], "field_of_view": c["fov"], "slew_rate": c["slew"],
                   "background_observations": True, "maximum_range": c["max_range"] if c["max_range"] is not None else float("inf")}
    if c["min_range"] is not None:
        sensor_over["minimum_range"] = c["min_range"]
    if c.get("corr"):
        # correlated measurement noise (any symmetric positive definite covariance is accepted by the configuration): correlation
        # c["corr"] between the first two components and between azimuth and the last one
        base_cov = np.array(kit.OPT_COV if c["kind"] == "optical" else (kit.ADV_COV if c["kind"] == "adv_radar" else kit.RADAR_COV), dtype=float)
        sd = np.sqrt(np.diag(base_cov))
        corr = np.eye(len(sd))
        corr[0, 1] = corr[1, 0] = c["corr"]
        corr[0, -1] = corr[-1, 0] = c["corr"] * (0.5 if len(sd) > 2 else 1.0)
        sensor_over["covariance"] = (corr * np.outer(sd, sd)).tolist()
        rec.label("correlated_noise")
    if c["kind"] == "optical":
        sensor_over["detectable_vismag"] = c["vismag"]
    else:
        sensor_over["tx_power"] = c["tx_power"]
    if c["host"] == "ground":
        sen = kit.ground_sensor(SID, c["lat"], c["lon"], 0.3, kind=c["kind"], **sensor_over)
    else:
        sen = kit.space_sensor(SID, kepler.propagate(sensor_t1, -dt), kind=c["kind"], **sensor_over)
    tgts = [kit.eci_target(TID, x0, visual_cross_section=c["vcs"], mass=500.0)] + [kit.eci_target(TID + 1 + i, b[1], visual_cross_section=c["vcs"], mass=500.0) for i, b in enumerate(bgs)]
    try:
        sc = kit.build(kit.scenario_config(t0, t0 + timedelta(seconds=3 * dt), dt, [kit.engine(1, [sen], tgts)], truth_only=True))
    except Exception as e:  # noqa: BLE001
        if "ValidationError" in type(e).__name__:
            raise HarnessError(f"generated configuration rejected: {e}") from e
        raise
    sc.stepForward()
    agent = sc.sensor_agents[SID]
    primary = sc.target_agents[TID]
    if np.linalg.norm(agent.eci_state[:3] - sensor_t1[:3]) > 1e-3 or np.linalg.norm(primary.eci_state[:3] - x1[:3]) > 1e-3:
        raise HarnessError(f"construction mismatch: sensor off by {np.linalg.norm(agent.eci_state[:3] - sensor_t1[:3]):.3e} km, target off by {np.linalg.norm(primary.eci_state[:3] - x1[:3]):.3e} km")
    sensor = agent.sensors
    # previous boresight: the direction to the target rotated away by a drawn angle about a drawn axis
    d0 = _sez_dir(az, el)
    ax0 = np.cross(d0, _sez_dir(math.radians(c["bore_dir"]), 0.3))
    ax0 /= np.linalg.norm(ax0)
    a_off = math.radians(c["bore_off"])
    bore_prev = d0 * math.cos(a_off) + np.cross(ax0, d0) * math.sin(a_off)
    if c["probe"] == "slew_edge":
        # previous boresight placed so that the required slew is right at the budget
        budget = math.radians(c["slew"]) * dt
        if budget < PI - 0.1:
            axis = np.cross(_sez_dir(az, el), [0.3, 0.5, 0.8])
            axis /= np.linalg.norm(axis)
            ang = budget * (1 + c["edge_eps"])
            d0 = _sez_dir(az, el)
            bore_prev = d0 * math.cos(ang) + np.cross(axis, d0) * math.sin(ang) + axis * axis.dot(d0) * (1 - math.cos(ang))
    sensor.boresight = np.array(bore_prev, dtype=float)
    tlt_prev = float(sensor.time_last_tasked)
    est = np.array(primary.eci_state, dtype=float)
    off = np.array(c["est_dir"]) / (np.linalg.norm(c["est_dir"]) + 1e-9) * c["est_off"]
    if c["probe"] == "fov_edge":
        half = math.radians(c["fov"].get("cone_angle", c["fov"].get("elevation_angle", 1.0))) / 2
        perp = np.cross(est[:3] - agent.eci_state[:3], [0.1, 0.9, 0.3])
        perp /= np.linalg.norm(perp)
        off = perp * rho * math.tan(min(1.4, half * (1 + c["edge_eps"])))
    est[:3] += off
    background = [sc.target_agents[TID + 1 + i] for i in range(len(bgs))]
    jd = agent.julian_date_epoch
    when = t1
    # pointing direction the sensor is commanded to (towards the estimate) by independent geometry
    from resonaate.physics.transforms.methods import eci2ecef

    point = m @ (eci2ecef(est, when)[:3] - s_ecef[:3])
    slew_budget = math.radians(c["slew"]) * (float(agent.time) - tlt_prev)
    if c.get("corr") and c["noise"]:
        # "within the sensor's stated noise": the noise the sensor draws has the stated covariance, correlations included.
        # 4000 draws of the sensor's own noise, whitened with the Cholesky factor of the stated R, must have unit covariance
        # (sampling error of an entry ~ sqrt(2/4000) = 0.022; a factor that reproduces another matrix is off by >= 0.3)
        r_stated = np.asarray(sensor.r_matrix, dtype=float)
        state = np.random.get_state()
        np.random.seed(12345)
        try:
            draws = np.array([np.asarray(sensor.measurement.noise, dtype=float).ravel() for _ in range(4000)])
        finally:
            np.random.set_state(state)
        white = np.linalg.solve(np.linalg.cholesky(r_stated), draws.T)
        dev = float(np.abs(white @ white.T / draws.shape[0] - np.eye(r_stated.shape[0])).max())
        rec.err("whitened_noise_covariance_dev", dev)
        if dev > 0.15:
            raise Violation("noise_covariance", f"4000 noise draws of the sensor, whitened with its stated covariance {r_stated.tolist()}, have covariance {dev:.2f} away from the identity")
    obs_list, miss_list, bore_now, tlt_now = sensor.collectObservations(est, primary, background)
    refl = primary.reflectivity
    # ---- oracle -------------------------------------------------------------------------------------
    verdicts = {}
    for ag in [primary] + background:
        verdicts[ag.simulation_id] = _evaluate(c, agent.eci_state, ag.eci_state, point / np.linalg.norm(point), when, jd, bore_prev, slew_budget, ag.visual_cross_section, ag.reflectivity)
    ev, band, meas = verdicts[TID]
    fails = [k for k, v in ev.items() if v < -band[k]]
    near = [k for k, v in ev.items() if abs(v) <= band[k]]
    close5 = [k for k, v in ev.items() if k in ("el_mask", "az_mask", "fov", "slew", "limb", "space_light", "ground_light", "galactic") and abs(v) < 0.05 * 0.2
              or k in ("min_range", "max_range", "radar") and abs(v) < 0.05 * rho or k == "vismag" and abs(v) < 0.5]
    non_fov_fail = [k for k in fails if k != "fov"]
    if close5 or non_fov_fail:
        rec.nontrivial([c["kind"], c["host"], tuple(sorted(fails)), c["fov"]["fov_shape"], c["probe"], round(az, 1), round(el, 1)])
    rec.label(f"{c['kind']}/{c['host']}")
    if c["probe"] == "limb_edge":
        rec.label("limb_probe:" + ("only_limb_fails" if fails == ["limb"] else ("nothing_fails" if not fails else "other_constraints_fail")))
    # every returned observation satisfies all constraints
    seen_pairs = set()
    for ob in obs_list:
        if not isinstance(ob, Observation):
            raise Violation("observation_type", f"collectObservations returned {type(ob).__name__} in the observation list")
        if (ob.sensor_id, ob.target_id) in seen_pairs:
            raise Violation("observation_duplicate", f"two observations of target {ob.target_id} from one collection")
        seen_pairs.add((ob.sensor_id, ob.target_id))
        if ob.sensor_id != SID or ob.target_id not in verdicts:
            raise Violation("observation_ids", f"observation of unknown pair ({ob.sensor_id}, {ob.target_id})")
        evb, bandb, measb = verdicts[ob.target_id]
        # (slew reachability of the commanded pointing applies to serendipitous observations as well: a sensor that cannot get
        # there has nothing in its field of view "about the commanded pointing")
        bad = [k for k, v in evb.items() if v < -bandb[k]]
        if bad:
            raise Violation("observation_violates_constraint", f"observation of target {ob.target_id} reported although {bad} fail(s) by independent evaluation (margins { {k: evb[k] for k in bad} }; {c['kind']}/{c['host']}, probe {c['probe']})")
        rec.label("explanation:Visible")
        # measurement equals the geometry (noise off) or lies within 8 sigma of it (noise on)
        sig = np.sqrt(np.diag(np.asarray(sensor.r_matrix, float)))
        for idx, name in enumerate(sensor.measurement.labels):
            got = float(getattr(ob, name))
            want = measb[name]
            diff = got - want
            if name == "azimuth_rad":
                diff = (diff + PI) % TWOPI - PI
                diff *= math.cos(measb["elevation_rad"])
            tol = {"azimuth_rad": 1e-7, "elevation_rad": 1e-7, "range_km": 1e-6, "range_rate_km_p_sec": 1e-8}[name]
            lim = tol + (8 * sig[idx] if c["noise"] else 0.0)
            if not c["noise"]:
                rec.err("measurement:" + name, abs(diff))
            if abs(diff) > lim:
                raise Violation("measurement_value", f"{name} of target {ob.target_id} reported {got!r}, geometry gives {want!r} (diff {diff:.3e}, allowed {lim:.3e}, noise {'on' if c['noise'] else 'off'})")
    # primary: observation xor exactly one miss
    prim_obs = [ob for ob in obs_list if ob.target_id == TID]
    prim_miss = [ms for ms in miss_list if ms.target_id == TID]
    for ms in miss_list:
        if not isinstance(ms, MissedObservation) or ms.target_id != TID or ms.sensor_id != SID:
            raise Violation("miss_pair", f"miss record for ({ms.sensor_id}, {ms.target_id}); only the tasked primary target can be missed")
    if len(prim_obs) + len(prim_miss) != 1:
        raise Violation("primary_records", f"tasked primary target has {len(prim_obs)} observation(s) and {len(prim_miss)} miss record(s)")
    if prim_miss:
        reason = str(getattr(prim_miss[0].reason, "value", prim_miss[0].reason))
        key = REASON.get(reason)
        rec.label("explanation:" + reason)
        if key is None:
            raise Violation("miss_reason_unknown", f"miss reason {reason!r} is not a documented explanation")
        if key not in ev:
            raise Violation("miss_reason_inapplicable", f"miss reason {reason!r} does not apply to a {c['kind']} sensor on a {c['host']} host")
        if ev[key] > band[key]:
            raise Violation("miss_reason_false", f"primary reported missed because of {reason!r}, but that constraint holds by independent evaluation (margin {ev[key]!r}); failing constraints: {fails} ({c['kind']}/{c['host']}, probe {c['probe']})")
    elif fails:
        pass  # covered by observation_violates_constraint
    if not prim_obs and not fails and not near:
        raise Violation("missed_although_visible", f"primary target satisfies every constraint by independent evaluation (margins {ev}) but was reported missed: {[str(mm.reason) for mm in prim_miss]}")
    if near:
        rec.label("boundary_skipped")
        for kk in near:
            rec.label("near:" + kk)
    # pointing bookkeeping returned to the engine
    if ev["slew"] > band["slew"]:
        if float(tlt_now) != float(agent.time) or np.linalg.norm(np.asarray(bore_now) - point / np.linalg.norm(point)) > 1e-6:
            raise Violation("pointing_update", "sensor could slew but the returned boresight / last-tasked time do not reflect the tasking")
    elif ev["slew"] < -band["slew"]:
        if float(tlt_now) != tlt_prev or np.linalg.norm(np.asarray(bore_now) - bore_prev) > 0:
            raise Violation("pointing_update", "sensor could not slew but its pointing state changed")


# ------------------------------------------------------------------------------------------------
def _bore_cases():
    az0 = st.one_of(st.floats(0, 360, exclude_max=True), st.sampled_from([0.0, 350.0, 90.0]))
    return st.builds(lambda a0, w, e0, ew, kind: {"a0": a0, "a1": (a0 + w) % 360.0, "e0": e0, "e1": min(90.0, e0 + ew), "kind": kind},
                     az0, st.floats(1.0, 359.0), st.floats(-80.0, 60.0), st.floats(1.0, 60.0), st.sampled_from(["optical", "radar", "adv_radar"]))


@PROP.clause("initial_boresight", strategy=_bore_cases, quick=1500, thorough=50000, shards=2)
def initial_boresight(c, rec):
    """a freshly built sensor points at the centre of its field of regard (documented), so the first slew test starts from there"""
    from resonaate.scenario.config import constructFromUnion
    from resonaate.scenario.config.sensor_config import SensorConfig
    from resonaate.sensors import sensorFactory

    a0, a1, e0, e1 = c["a0"], c["a1"], c["e0"], c["e1"]
    if a1 >= 360.0:
        a1 = 0.0
    body = kit.sensor_body(c["kind"], azimuth_range=[a0, a1], elevation_range=[e0, e1])
    sensor = sensorFactory(constructFromUnion(SensorConfig, body))
    b = np.asarray(sensor.boresight, dtype=float)
    wraps = a0 > a1
    if wraps:
        rec.nontrivial([round(a0), round(a1), round(e0), round(e1)])
    if abs(np.linalg.norm(b) - 1.0) > 1e-12:
        raise Violation("boresight_norm", f"initial boresight {b.tolist()} is not a unit vector")
    width = (a1 - a0) % 360.0
    mid_az = math.radians((a0 + width / 2) % 360.0)
    mid_el = math.radians((e0 + e1) / 2)
    want = _sez_dir(mid_az, mid_el)
    sep = _angle(b, want)
    if sep > 1e-9:
        baz = math.degrees(math.atan2(b[1], -b[0]) % TWOPI)
        bel = math.degrees(math.asin(max(-1, min(1, b[2]))))
        raise Violation("initial_boresight", f"sensor with azimuth mask [{a0!r},{a1!r}] deg and elevation mask [{e0!r},{e1!r}] deg starts pointing at az={baz:.3f}, el={bel:.3f} deg, {math.degrees(sep):.3f} deg away from the centre of its field of regard (az={math.degrees(mid_az):.3f}, el={math.degrees(mid_el):.3f})")
