"""C01 - every scheduled event takes effect exactly once, at its configured time."""

from __future__ import annotations

from datetime import timedelta

from hypothesis import strategies as st

from vf import scenario_kit as kit  # installs the Ray double before resonaate is imported
from vf.oracles import kepler
from vf.runner import Prop, Violation
from vf.strategies.instants import eop_instants, iso, parse

import numpy as np  # noqa: E402

PROP = Prop(
    "C01",
    rule=(
        "Hypothesis draws (start instant in the EOP table, dt, number of steps, 1-4 events of all kinds with >=60% of "
        "event times at exact multiples of dt); the real Scenario is run on the in-process Ray double with two tasking "
        "engines; delivery of every event is logged by wrapping handleEvent and compared with an integer-arithmetic "
        "reference model; impulse effects are compared with a closed-form Kepler reference. Non-trivial = at least one "
        "event time (or interval endpoint) on a step boundary; distinct by (start second-of-day, dt, sorted (kind, tau))."
    ),
    assumptions=[
        "in-process Ray double executes the same task functions as Ray workers",
        "two-body truth dynamics so that the closed-form Kepler solution is the reference for impulse effects",
        "event times are whole seconds (configuration timestamps), except that a quarter of the impulses carry a quarter/half second",
        "a sensor time bias acts on the observation taken at a step's epoch: when a bias interval ends strictly inside a step the code "
        "treats it as over at that epoch (physically the observation is no longer biased) while the property's wording counts the step as "
        "overlapped - both outcomes are accepted for exactly those steps (label bias_boundary_skipped); all other steps are strict",
    ],
)
PROP.selftest(kepler.selftest)
kit.install_keyed_noise()

T1, T2, T3, T4 = 11001, 11002, 11003, 11004
S1, S2, S3, S5 = 21001, 21002, 21003, 21005
SITE_A = (10.0, 20.0)
SITE_B = (-25.0, 130.0)
R_MEO = 20000.0

POS_TOL = 1e-4  # km     (RK45 rtol 1e-10 over <= 12 steps; observed error is recorded in evidence)
VEL_TOL = 1e-7  # km/s   (smallest generated impulse is 1e-3 km/s)


# ------------------------------------------------------------------------------------------------
# generator
# ------------------------------------------------------------------------------------------------
@st.composite
def _cases(draw):
    t0 = draw(eop_instants(margin_days=3))
    # (offsets that are multiples of 675 s = 1/128 day survive the Julian-date round trip exactly: steps dividing 675 reach them)
    dt = draw(st.one_of(st.sampled_from([2, 3, 5, 7, 10, 30, 60, 90, 120, 300, 600]), st.sampled_from([45, 135, 225, 675]), st.integers(2, 900)))
    n = draw(st.integers(3, 10))

    def tau():
        k = draw(st.integers(1, n))
        mode = draw(st.sampled_from(["grid", "grid", "grid", "grid", "plus1", "minus1", "mid"]))
        if mode == "grid":
            return k * dt
        if mode == "plus1":
            return min(n * dt, (k - 1) * dt + 1)
        if mode == "minus1":
            return k * dt - 1
        return (k - 1) * dt + draw(st.integers(1, dt - 1))

    def interval():
        a, b = sorted([tau(), tau()])
        return a, b

    kinds = draw(st.lists(
        st.sampled_from(["impulse", "impulse", "impulse", "target_addition", "sensor_addition", "target_removal",
                         "sensor_removal", "task_priority", "time_bias"]),
        min_size=1, max_size=4))
    events = []
    seen = set()
    n_imp = 0
    for kind in kinds:
        if kind != "impulse" and kind in seen:
            continue
        seen.add(kind)
        if kind == "impulse":
            n_imp += 1
            if n_imp > 2:
                continue
            mag = draw(st.sampled_from([1e-3, 2.5e-3, 1e-2]))
            d = draw(st.sampled_from([(1, 0, 0), (0, 1, 0), (0, 0, 1), (1, 1, 0), (-1, 0, 1)]))
            dv = [mag * x + 1e-6 * n_imp for x in d]
            # event times are ISO timestamps with a fractional part: a quarter of the impulses are not on a whole second
            t_imp = tau()
            fr = draw(st.sampled_from([0, 0, 0, 0, 0, 0, 0.25, 0.5, 0.75]))
            if fr and t_imp < n * dt:
                t_imp = t_imp + fr
            events.append({"kind": "impulse", "tau": t_imp, "target": draw(st.sampled_from([T1, T4])),
                           "frame": draw(st.sampled_from(["eci", "ntw"])), "dv": dv, "planned": draw(st.booleans())})
        elif kind in ("target_addition", "sensor_addition"):
            events.append({"kind": kind, "tau": tau(), "engine": draw(st.sampled_from([1, 2]))})
        elif kind in ("target_removal", "sensor_removal"):
            events.append({"kind": kind, "tau": tau()})
        elif kind == "task_priority":
            a, b = interval()
            eng = draw(st.sampled_from([1, 2]))
            tgt = T1 if eng == 1 else draw(st.sampled_from([T1, T4]))
            events.append({"kind": kind, "tau": a, "tau_end": b, "engine": eng, "target": tgt,
                           "priority": draw(st.sampled_from([2.0, 3.5, 10.0]))})
        elif kind == "time_bias":
            a, b = interval()
            events.append({"kind": kind, "tau": a, "tau_end": b, "sensor": draw(st.sampled_from([S1, S2])),
                           "bias": draw(st.sampled_from([0.5, -0.5, 1.0]))})
    # actual ids of the two engines ("engine 1/2" everywhere else in a case are logical names); 0 is a valid id
    eng_ids = draw(st.sampled_from([[1, 2], [1, 2], [0, 2], [3, 0], [0, 7]]))
    return {"start": iso(t0), "dt": dt, "nsteps": n, "events": events, "eng_ids": eng_ids, "added_sensor": draw(st.sampled_from(["space", "ground"]))}


# ------------------------------------------------------------------------------------------------
# scenario construction
# ------------------------------------------------------------------------------------------------
_ENG = {"l2a": {1: 1, 2: 2}, "a2l": {1: 1, 2: 2}}


def _set_engine_ids(case):
    a, b = case.get("eng_ids", [1, 2])
    _ENG["l2a"] = {1: a, 2: b}
    _ENG["a2l"] = {a: 1, b: 2}


def _build_config(case):
    _set_engine_ids(case)
    l2a = _ENG["l2a"]
    t0 = parse(case["start"])
    dt, n = case["dt"], case["nsteps"]
    st_t1 = kit.circular_state_over(*SITE_A, t0, R_MEO, heading_deg=40.0)
    st_t2 = kit.circular_state_over(*SITE_A, t0, R_MEO + 500.0, heading_deg=80.0, offset_deg=(3.0, 4.0))
    st_t3 = kit.circular_state_over(*SITE_A, t0, R_MEO + 900.0, heading_deg=120.0, offset_deg=(-3.0, 2.0))
    st_t4 = kit.circular_state_over(*SITE_B, t0, R_MEO + 200.0, heading_deg=70.0)
    t1 = kit.eci_target(T1, st_t1)
    t2 = kit.eci_target(T2, st_t2)
    t3 = kit.eci_target(T3, st_t3)
    t4 = kit.eci_target(T4, st_t4)
    s1 = kit.ground_sensor(S1, *SITE_A)
    s2 = kit.ground_sensor(S2, *SITE_B)
    # the sensor added by event is space based or (since repair S41 made that possible) a ground facility
    if case.get("added_sensor") == "ground":
        s3 = kit.ground_sensor(S3, SITE_A[0] - 2.0, SITE_A[1] + 1.5)
    else:
        s3 = kit.space_sensor(S3, kit.circular_state_over(*SITE_A, t0, R_MEO - 6000.0, heading_deg=20.0, offset_deg=(1.0, -1.0)),
                              kind="adv_radar")
    s5 = kit.ground_sensor(S5, SITE_B[0] + 1.0, SITE_B[1] + 1.0)
    engines = [kit.engine(l2a[1], [s1], [t1, t2]), kit.engine(l2a[2], [s2, s5], [t1, t4])]
    evs = []
    for ev in case["events"]:
        when = iso_z(t0 + timedelta(seconds=ev["tau"]))
        k = ev["kind"]
        if k == "impulse":
            evs.append({"scope": "agent_propagation", "scope_instance_id": ev["target"], "start_time": when,
                        "event_type": "impulse", "thrust_vector": ev["dv"], "thrust_frame": ev["frame"],
                        "planned": ev["planned"]})
        elif k == "target_addition":
            evs.append({"scope": "scenario_step", "scope_instance_id": 0, "start_time": when,
                        "event_type": "target_addition", "tasking_engine_id": l2a[ev["engine"]], "target_agent": t3})
        elif k == "sensor_addition":
            evs.append({"scope": "scenario_step", "scope_instance_id": 0, "start_time": when,
                        "event_type": "sensor_addition", "tasking_engine_id": l2a[ev["engine"]], "sensor_agent": s3})
        elif k == "target_removal":
            evs.append({"scope": "scenario_step", "scope_instance_id": 0, "start_time": when,
                        "event_type": "agent_removal", "tasking_engine_id": l2a[1], "agent_id": T2, "agent_type": "target"})
        elif k == "sensor_removal":
            evs.append({"scope": "scenario_step", "scope_instance_id": 0, "start_time": when,
                        "event_type": "agent_removal", "tasking_engine_id": l2a[2], "agent_id": S5, "agent_type": "sensor"})
        elif k == "task_priority":
            evs.append({"scope": "task_reward_generation", "scope_instance_id": l2a[ev["engine"]], "start_time": when,
                        "end_time": iso_z(t0 + timedelta(seconds=ev["tau_end"])), "event_type": "task_priority",
                        "target_id": ev["target"], "target_name": f"tgt{ev['target']}", "priority": ev["priority"],
                        "is_dynamic": False})
        elif k == "time_bias":
            evs.append({"scope": "observation_generation", "scope_instance_id": ev["sensor"], "start_time": when,
                        "end_time": iso_z(t0 + timedelta(seconds=ev["tau_end"])), "event_type": "sensor_time_bias",
                        "applied_bias": ev["bias"]})
    cfg = kit.scenario_config(t0, t0 + timedelta(seconds=(n + 1) * dt), dt, engines, events=evs)
    return cfg, {T1: st_t1, T2: st_t2, T3: st_t3, T4: st_t4}


def iso_z(t):
    return t.strftime("%Y-%m-%dT%H:%M:%S.") + f"{t.microsecond // 1000:03d}Z"


def _describe(obj):
    name = type(obj).__name__
    if name == "Scenario":
        return ("scenario", 0)
    if name == "TargetAgent":
        return ("truth", obj.simulation_id)
    if name == "EstimateAgent":
        return ("estimate", obj.simulation_id)
    if name == "SensingAgent":
        return ("sensor", obj.simulation_id)
    if hasattr(obj, "unique_id"):
        return ("engine", _ENG["a2l"].get(obj.unique_id, obj.unique_id))
    return (name, -1)


class _Tap:
    """Harness-side instrumentation: logs every handleEvent call with the step it happened in."""

    def __init__(self):
        self.step = 0
        self.log = []  # (event_id, event_type, (kind, id), step)
        self.predictions = []  # (target id, step, time before, estimate before, time after, predicted estimate)
        self._orig = {}

    def __enter__(self):
        from resonaate.data.events import Event

        Event._generateRegistry()
        tap = self
        for cls in Event.EVENT_REGISTRY.values():
            orig = cls.__dict__.get("handleEvent")
            if orig is None:
                continue
            self._orig[cls] = orig

            def wrapper(ev, scope_instance, _orig=orig):
                tap.log.append((ev.id, ev.event_type, _describe(scope_instance), tap.step))
                return _orig(ev, scope_instance)

            cls.handleEvent = wrapper
        # the prediction jobs run in-process (Ray double) on copies of the filters: tapping the class sees every one of them
        from resonaate.estimation.kalman.unscented_kalman_filter import UnscentedKalmanFilter

        self._ukf, self._ukf_predict = UnscentedKalmanFilter, UnscentedKalmanFilter.predict

        def predict(flt, final_time, scheduled_events=None, _orig=UnscentedKalmanFilter.predict):
            before = (float(flt.time), np.array(flt.est_x, dtype=float))
            out = _orig(flt, final_time, scheduled_events=scheduled_events)
            tap.predictions.append((flt.target_id, tap.step, before[0], before[1], float(final_time), np.array(flt.pred_x, dtype=float)))
            return out

        UnscentedKalmanFilter.predict = predict
        return self

    def __exit__(self, *exc):
        for cls, orig in self._orig.items():
            cls.handleEvent = orig
        self._ukf.predict = self._ukf_predict
        return False


def _event_rows():
    rows = kit.raw_sql(
        "select id, event_type, start_time_jd, end_time_jd, scope_instance_id, thrust_vec_0, agent_id from events order by id")
    return rows


# ------------------------------------------------------------------------------------------------
@PROP.clause("scenario_events", strategy=_cases, quick=240, thorough=5000, shards=16, shrink=True)
def scenario_events(case, rec):
    """all event kinds on a two-engine scenario: delivery step/addressee exact, effects applied exactly once"""
    from resonaate.physics.time.stardate import datetimeToJulianDate

    t0 = parse(case["start"])
    dt, n = case["dt"], case["nsteps"]
    evs = case["events"]
    cfg, init_states = _build_config(case)

    aligned = any(ev["tau"] % dt == 0 or ev.get("tau_end", 1) % dt == 0 for ev in evs)
    key = [t0.hour * 3600 + t0.minute * 60 + t0.second, dt, sorted((e["kind"], e["tau"]) for e in evs)]
    if aligned:
        rec.nontrivial(key)
    rec.label("engine_ids:%s" % (case.get("eng_ids", [1, 2]),))
    for e in evs:
        rec.label("kind:" + e["kind"] + (":" + case.get("added_sensor", "space") if e["kind"] == "sensor_addition" else ""))
        rec.label("aligned" if e["tau"] % dt == 0 else "inside")
        if e["tau"] != int(e["tau"]):
            rec.label("fractional_second_event_time")

    with _Tap() as tap:
        sc = kit.build(cfg)
        rows = _event_rows()
        # map case events to database ids
        ids = {}
        for i, ev in enumerate(evs):
            jd = float(datetimeToJulianDate(t0 + timedelta(seconds=ev["tau"])))
            etype = {"impulse": "impulse", "target_addition": "target_addition", "sensor_addition": "sensor_addition",
                     "target_removal": "agent_removal", "sensor_removal": "agent_removal",
                     "task_priority": "task_priority", "time_bias": "sensor_time_bias"}[ev["kind"]]
            cand = [r for r in rows if r[1] == etype and r[2] == jd]
            if ev["kind"] == "impulse":
                cand = [r for r in cand if r[5] == ev["dv"][0] and r[4] == ev["target"]]
            if ev["kind"] == "target_removal":
                cand = [r for r in cand if r[6] == T2]
            if ev["kind"] == "sensor_removal":
                cand = [r for r in cand if r[6] == S5]
            if len(cand) != 1:
                raise Violation("event_rows", f"event {ev} stored as {len(cand)} rows in the events table")
            ids[i] = cand[0][0]

        snaps = {}
        captured = {}  # (step, engine) -> {"R0":..., "R1":...}
        for eng in sc.tasking_engines.values():
            def calc(_eng=eng, _orig=eng.calculateRewards):
                _orig()
                captured.setdefault((tap.step, _ENG["a2l"][_eng.unique_id]), {})["R0"] = (_eng.reward_matrix.copy(), list(_eng.target_list))

            def gen(_eng=eng, _orig=eng.generateTasking):
                captured.setdefault((tap.step, _ENG["a2l"][_eng.unique_id]), {})["R1"] = (_eng.reward_matrix.copy(), list(_eng.target_list))
                _orig()

            eng.calculateRewards = calc
            eng.generateTasking = gen

        orig_step = sc.stepForward

        def stepped():
            tap.step += 1
            orig_step()
            k = tap.step
            snaps[k] = {
                "truth": {tid: np.array(a.eci_state, dtype=float) for tid, a in sc.target_agents.items()},
                "targets": set(sc.target_agents), "estimates": set(sc.estimate_agents), "sensors": set(sc.sensor_agents),
                "eng_targets": {_ENG["a2l"][e.unique_id]: list(e.target_list) for e in sc.tasking_engines.values()},
                "eng_sensors": {_ENG["a2l"][e.unique_id]: list(e.sensor_list) for e in sc.tasking_engines.values()},
                "bias": {sid: [b.id for b in s.sensor_time_bias_event_queue] for sid, s in sc.sensor_agents.items()},
            }

        sc.stepForward = stepped
        sc.propagateTo(datetimeToJulianDate(t0 + timedelta(seconds=n * dt)))
        sc.stepForward = orig_step
        if tap.step != n:
            raise Violation("step_count", f"{tap.step} steps executed, expected {n}")
        log = list(tap.log)
        predictions = list(tap.predictions)

    def deliveries(i, who=None):
        return [(w, s) for (eid, _t, w, s) in log if eid == ids[i] and (who is None or w[0] == who)]

    # ---- reference model --------------------------------------------------------------------
    for i, ev in enumerate(evs):
        k = -(-ev["tau"] // dt)  # ceil: the step whose interval (prev, new] contains tau
        kind = ev["kind"]
        got = deliveries(i)
        if kind == "impulse":
            want = [(("truth", ev["target"]), k)] + ([(("estimate", ev["target"]), k)] if ev["planned"] else [])
            if sorted(got) != sorted(want):
                raise Violation("impulse_delivery", f"impulse at start+{ev['tau']}s (dt={dt}, step {k}) delivered as {got}, expected {want}")
        elif kind in ("target_addition", "sensor_addition", "target_removal", "sensor_removal"):
            want = [(("scenario", 0), k)]
            if got != want:
                raise Violation(kind + "_delivery", f"{kind} at start+{ev['tau']}s (dt={dt}, step {k}) delivered as {got}, expected {want}")
        elif kind == "task_priority":
            k_end = ev["tau_end"]
            want_steps = [j for j in range(1, n + 1) if ev["tau"] <= j * dt and k_end > (j - 1) * dt]
            want = [(("engine", ev["engine"]), j) for j in want_steps]
            if sorted(got) != sorted(want):
                raise Violation("priority_delivery", f"task priority [{ev['tau']},{k_end}]s for engine {ev['engine']} (dt={dt}) delivered as {sorted(got)}, expected {want}")
        elif kind == "time_bias":
            # delivered (possibly repeatedly) only to the named sensor, only in overlapping steps
            k_end = ev["tau_end"]
            overlap = [j for j in range(1, n + 1) if ev["tau"] <= j * dt and k_end > (j - 1) * dt]
            for w, s in got:
                if w != ("sensor", ev["sensor"]):
                    raise Violation("bias_misdelivered", f"time bias for sensor {ev['sensor']} delivered to {w}")
                if s not in overlap:
                    raise Violation("bias_delivery_step", f"time bias [{ev['tau']},{k_end}]s delivered in step {s}, overlapping steps are {overlap}")

    # ---- membership effects -------------------------------------------------------------------
    def step_of(kind):
        for ev in evs:
            if ev["kind"] == kind:
                return -(-ev["tau"] // dt), ev
        return None, None

    k_add_t, ev_add_t = step_of("target_addition")
    k_add_s, ev_add_s = step_of("sensor_addition")
    k_rm_t, _ = step_of("target_removal")
    k_rm_s, _ = step_of("sensor_removal")
    for j in range(1, n + 1):
        sn = snaps[j]
        exp_targets = {T1, T2, T4}
        exp_e = {1: [T1, T2], 2: [T1, T4]}
        exp_s = {1: [S1], 2: [S2, S5]}
        exp_sensors = {S1, S2, S5}
        if k_add_t is not None and j >= k_add_t:
            exp_targets.add(T3)
            exp_e[ev_add_t["engine"]] = sorted(exp_e[ev_add_t["engine"]] + [T3])
        if k_rm_t is not None and j >= k_rm_t:
            exp_targets.discard(T2)
            exp_e[1] = [x for x in exp_e[1] if x != T2]
        if k_add_s is not None and j >= k_add_s:
            exp_sensors.add(S3)
            exp_s[ev_add_s["engine"]] = sorted(exp_s[ev_add_s["engine"]] + [S3])
        if k_rm_s is not None and j >= k_rm_s:
            exp_sensors.discard(S5)
            exp_s[2] = [x for x in exp_s[2] if x != S5]
        if sn["targets"] != exp_targets or sn["estimates"] != exp_targets:
            raise Violation("target_membership", f"after step {j}: targets {sorted(sn['targets'])} estimates {sorted(sn['estimates'])}, expected {sorted(exp_targets)}")
        if sn["sensors"] != exp_sensors:
            raise Violation("sensor_membership", f"after step {j}: sensors {sorted(sn['sensors'])}, expected {sorted(exp_sensors)}")
        if sn["eng_targets"] != exp_e:
            raise Violation("engine_targets", f"after step {j}: engine target lists {sn['eng_targets']}, expected {exp_e}")
        if sn["eng_sensors"] != exp_s:
            raise Violation("engine_sensors", f"after step {j}: engine sensor lists {sn['eng_sensors']}, expected {exp_s}")

    # ---- time bias: active set at each epoch -------------------------------------------------
    for i, ev in enumerate(evs):
        if ev["kind"] != "time_bias":
            continue
        for j in range(1, n + 1):
            for sid, q in snaps[j]["bias"].items():
                active = ids[i] in q
                if sid != ev["sensor"]:
                    if active:
                        raise Violation("bias_wrong_sensor", f"time bias for sensor {ev['sensor']} is active on sensor {sid} at step {j}")
                    continue
                overlaps = ev["tau"] <= j * dt and ev["tau_end"] > (j - 1) * dt
                covers_epoch = ev["tau"] <= j * dt <= ev["tau_end"]
                if overlaps != covers_epoch:
                    rec.label("bias_boundary_skipped")  # interval ends inside the step: either reading is accepted
                    continue
                if active != overlaps:
                    raise Violation("bias_active", f"time bias [{ev['tau']},{ev['tau_end']}]s on sensor {sid} (dt={dt}) active={active} at step {j} (epoch {j * dt}s), expected {overlaps}")
                if q.count(ids[i]) > 1:
                    raise Violation("bias_duplicated", f"time bias queued {q.count(ids[i])} times at step {j}")

    # ---- task priority: effect on the rewards handed to the decision ----------------------------
    for i, ev in enumerate(evs):
        if ev["kind"] != "task_priority":
            continue
        for j in range(1, n + 1):
            for eid in (1, 2):
                cap = captured.get((j, eid))
                if not cap or "R0" not in cap or "R1" not in cap:
                    raise Violation("priority_capture", f"engine {eid} did not compute rewards in step {j}")
                (r0, tl0), (r1, tl1) = cap["R0"], cap["R1"]
                active = eid == ev["engine"] and ev["tau"] <= j * dt and ev["tau_end"] > (j - 1) * dt
                exp = r0.copy()
                if active and ev["target"] in tl0:
                    exp[tl0.index(ev["target"]), :] *= ev["priority"]
                    if np.any(r0[tl0.index(ev["target"]), :] != 0):
                        rec.label("priority_effect_visible")
                if r1.shape != exp.shape or not np.allclose(r1, exp, rtol=1e-12, atol=0):
                    raise Violation("priority_effect", f"step {j} engine {eid}: rewards given to the decision {r1.tolist()} != computed rewards with priority applied {exp.tolist()} (priority event active={active})")

    # ---- planned impulses: effect on the estimate's prediction, exactly once ---------------------------
    for tid in (T1, T4):
        planned = sorted([ev for ev in evs if ev["kind"] == "impulse" and ev["target"] == tid and ev["planned"]], key=lambda e: e["tau"])
        unplanned = [ev for ev in evs if ev["kind"] == "impulse" and ev["target"] == tid and not ev["planned"]]
        if not planned and not unplanned:
            continue
        pending = list(planned)
        for (ptid, j, t_a, x_a, t_b, x_b) in predictions:
            if ptid != tid or not t_b > t_a:
                continue

            def ref_with(imps, _t_a=t_a, _x_a=x_a, _t_b=t_b):
                s_, t_ = _x_a.copy(), _t_a
                for ev in imps:
                    at = min(max(ev["tau"], _t_a), _t_b)
                    s_ = kepler.propagate(s_, at - t_) if at > t_ else s_
                    t_ = at
                    dv = np.array(ev["dv"], dtype=float)
                    if ev["frame"] == "ntw":
                        dv = kepler.ntw_basis(s_) @ dv
                    s_ = s_.copy()
                    s_[3:] += dv
                return kepler.propagate(s_, _t_b - t_) if _t_b > t_ else s_

            due = [ev for ev in pending if ev["tau"] <= t_b + 1e-3]
            on_edge = [ev for ev in due if abs(ev["tau"] - t_b) <= 1e-3]
            options = [(due, "all due impulses applied")]
            if on_edge:
                options.append(([ev for ev in due if ev not in on_edge], "impulse on the new epoch left for the next step"))
            hit = None
            errs = []
            for imps, what in options:
                ref = ref_with(imps)
                dvv = float(np.linalg.norm(x_b[3:] - ref[3:]))
                dpp = float(np.linalg.norm(x_b[:3] - ref[:3]))
                errs.append((dvv, dpp, what))
                # (unscented mean of the propagated sigma points vs the propagated mean: second order in the covariance)
                if dvv <= 2e-5 and dpp <= 2e-5 * max(1.0, t_b - t_a) + 1e-3:
                    hit = imps
                    break
            if hit is None:
                raise Violation("estimate_impulse_effect", f"target {tid}, step {j} ({t_a}s -> {t_b}s, dt={dt}): the predicted estimate differs from the prior estimate propagated with each planned impulse applied exactly once ({[e['tau'] for e in due]}s due, unplanned {[e['tau'] for e in unplanned]}s) by {errs[0][0]:.3e} km/s, {errs[0][1]:.3e} km")
            if due:
                rec.label("planned_impulse_seen_in_prediction" if hit else "planned_impulse_left_for_next_step")
            rec.err("estimate_prediction_vs_ref_vel_kms", min(e[0] for e in errs))
            pending = [ev for ev in pending if ev not in hit]
        left = [ev for ev in pending if ev["tau"] <= (n - 1) * dt]
        if left and any(p[0] == tid for p in predictions):
            raise Violation("estimate_impulse_dropped", f"target {tid}: planned impulses at {[e['tau'] for e in left]}s never showed in any prediction of the estimate")

    # ---- impulse effect on the truth trajectory ----------------------------------------------
    for tid in (T1, T4):
        imps = sorted([ev for ev in evs if ev["kind"] == "impulse" and ev["target"] == tid], key=lambda e: e["tau"])
        s = np.array(init_states[tid], dtype=float)
        t_now = 0
        pending = list(imps)
        for j in range(1, n + 1):
            ambiguous = []
            while pending and pending[0]["tau"] <= j * dt:
                ev = pending.pop(0)
                s = kepler.propagate(s, ev["tau"] - t_now) if ev["tau"] > t_now else s
                t_now = ev["tau"]
                dv = np.array(ev["dv"], dtype=float)
                if ev["frame"] == "ntw":
                    dv = kepler.ntw_basis(s) @ dv
                if ev["tau"] == j * dt:
                    ambiguous.append(dv.copy())
                s = s.copy()
                s[3:] += dv
            ref = kepler.propagate(s, j * dt - t_now) if j * dt > t_now else s
            got = snaps[j]["truth"][tid]
            dp = float(np.linalg.norm(got[:3] - ref[:3]))
            dvv = float(np.linalg.norm(got[3:] - ref[3:]))
            if ambiguous:
                # impulse exactly on this epoch: the recorded state may be taken just before or just after it
                alt = ref.copy()
                alt[3:] -= np.sum(ambiguous, axis=0)
                dp2 = float(np.linalg.norm(got[:3] - alt[:3]))
                dv2 = float(np.linalg.norm(got[3:] - alt[3:]))
                if dp2 <= POS_TOL and dv2 <= VEL_TOL:
                    rec.label("impulse_on_epoch_applied_after")
                    continue
                if len(ambiguous) > 1:
                    rec.label("two_impulses_same_epoch")
            if not imps:
                rec.err("truth_vs_kepler_pos_km", dp)
                rec.err("truth_vs_kepler_vel_kms", dvv)
            if dp > POS_TOL or dvv > VEL_TOL:
                if not imps:
                    raise Violation("truth_drift", f"target {tid} without impulses differs from Kepler by {dp:.3e} km {dvv:.3e} km/s at step {j}")
                raise Violation("impulse_effect", f"target {tid}: truth after step {j} (epoch {j * dt}s) differs from the reference with each impulse applied exactly once by {dp:.3e} km, {dvv:.3e} km/s; impulses at {[e['tau'] for e in imps]}s, dt={dt}")
            if imps:
                rec.err("impulse_truth_vs_ref_pos_km", dp)
                rec.err("impulse_truth_vs_ref_vel_kms", dvv)
