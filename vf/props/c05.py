"""C05 - calendar / Julian-date / scenario times agree; requested durations are honoured."""

from __future__ import annotations

from datetime import date, datetime, timedelta
from fractions import Fraction

from hypothesis import strategies as st

from vf import scenario_kit  # noqa: F401  (installs the Ray double before resonaate is imported)
from vf.runner import Prop, Skip, Violation
from vf.strategies.instants import instants, iso, parse

PROP = Prop(
    "C05",
    rule=(
        "jd_day: exhaustive enumeration of all 86400 whole seconds of each chosen day (boundary days of "
        "1901-2099 + seed-drawn days); non-trivial = second-of-minute != 0, every enumerated second is distinct. "
        "jd_instant: Hypothesis whole-second instants 1901-2099; non-trivial = second-of-minute != 0, distinct by instant. "
        "scenario_time: (start instant, offset<=30 d) round trips; non-trivial = start second != 0 or fractional offset. "
        "timed_run: real Scenario.propagateTo on the in-process Ray double for (start, dt>=2, D); "
        "non-trivial = D not a multiple of dt or start second-of-minute != 0; distinct by (start, dt, D). "
        "run_entry: the real runResonaate(config, sim_time_hours=D/3600) with only the configuration-file reader replaced; "
        "non-trivial = float(D/3600)*3600 lands below the whole second D (half of the cases are drawn from that 4% class)."
    ),
    assumptions=[
        "datetime arithmetic of the Python standard library is the exact reference",
        "the in-process Ray double executes the same resonaate task functions as a Ray worker would",
        "a duration handed to runResonaate as hours (the nearest float to D/3600 for a whole number of seconds D) means D: durations "
        "are read to the nearest microsecond, as datetime.timedelta(hours=h) does",
    ],
)

FIRST, LAST = date(1901, 1, 1), date(2099, 12, 31)


def _rt(t: datetime):
    from resonaate.physics.time.stardate import datetimeToJulianDate, julianDateToDatetime

    jd = datetimeToJulianDate(t)
    return jd, julianDateToDatetime(jd)


# ------------------------------------------------------------------------------------------------
def _check_seconds(day: date, secs, rec):
    """Round trip + strict monotonicity for the given seconds of ``day`` (and their successors)."""
    from resonaate.physics.time.stardate import datetimeToJulianDate, julianDateToDatetime

    base = datetime(day.year, day.month, day.day)
    prev_jd = None
    prev_s = None
    for s in secs:
        t = base + timedelta(seconds=s)
        jd = datetimeToJulianDate(t)
        back = julianDateToDatetime(jd)
        if back != t:
            raise Violation(
                "roundtrip",
                f"julianDateToDatetime(datetimeToJulianDate({iso(t)})) = {iso(back)}",
                {"jd": float(jd)},
                case={"day": day.isoformat(), "sec": s},
            )
        if prev_jd is not None and prev_s == s - 1 and not float(jd) > float(prev_jd):
            raise Violation(
                "monotonic",
                f"JD({iso(t)}) = {float(jd)!r} is not > JD(one second earlier) = {float(prev_jd)!r}",
                case={"day": day.isoformat(), "sec": s},
            )
        prev_jd, prev_s = jd, s


@PROP.clause("jd_day", quick=14, thorough=1400, shards=14, thorough_shards=16)
def jd_day(case, rec):
    """every whole second of a day: JD round trip returns the same instant, JD strictly increasing"""
    day = date.fromisoformat(case["day"])
    if case.get("sec") is not None:
        s = case["sec"]
        _check_seconds(day, [s - 1, s] if s > 0 else [s], rec)
        if s % 60:
            rec.nontrivial(f"{case['day']}+{s}")
        return
    _check_seconds(day, range(86400), rec)
    # also the step into the next day
    nxt = day + timedelta(days=1)
    if nxt <= LAST:
        from resonaate.physics.time.stardate import datetimeToJulianDate

        a = datetimeToJulianDate(datetime(day.year, day.month, day.day, 23, 59, 59))
        b = datetimeToJulianDate(datetime(nxt.year, nxt.month, nxt.day))
        if not float(b) > float(a):
            raise Violation("monotonic", f"JD not increasing across midnight after {day}", case=case)
    rec.bulk(86400 - 1, 86400 - 1440)
    rec.label("days_enumerated")


@PROP.sweep("jd_day")
def jd_day_cases(ctx):
    import numpy as np

    special = []
    for y in range(FIRST.year, LAST.year + 1):
        special += [date(y, 1, 1), date(y, 12, 31), date(y, 2, 28), date(y, 3, 1)]
        if y % 4 == 0:
            special.append(date(y, 2, 29))
    rng = np.random.default_rng(ctx["seed"])
    n = ctx["n"]
    ndays = (LAST - FIRST).days
    chosen = []
    # half boundary days, half uniformly drawn days (per shard, seed-dependent)
    for i in range(n):
        if i % 2 == 0:
            chosen.append(special[int(rng.integers(len(special)))])
        else:
            chosen.append(FIRST + timedelta(days=int(rng.integers(ndays + 1))))
    for d in chosen:
        yield {"day": d.isoformat(), "sec": None}


# ------------------------------------------------------------------------------------------------
def _instant_cases():
    return st.builds(lambda t: {"t": iso(t)}, instants(FIRST, LAST))


@PROP.clause("jd_instant", strategy=_instant_cases, quick=4000, thorough=200000, shards=2)
def jd_instant(case, rec):
    """drawn whole-second instants: round trip, neighbours strictly ordered, JD spacing = 1 s"""
    from resonaate.physics.time.stardate import JulianDate, datetimeToJulianDate, julianDateToDatetime

    t = parse(case["t"])
    jd, back = _rt(t)
    if t.second:
        rec.nontrivial(case["t"])
    if back != t:
        raise Violation("roundtrip", f"{iso(t)} -> JD {float(jd)!r} -> {iso(back)}")
    if not isinstance(jd, JulianDate):
        raise Violation("type", "datetimeToJulianDate did not return a JulianDate")
    if t + timedelta(seconds=1) <= datetime(LAST.year, 12, 31, 23, 59, 59):
        jd1 = datetimeToJulianDate(t + timedelta(seconds=1))
        d = (float(jd1) - float(jd)) * 86400.0
        rec.err("jd_spacing_s", abs(d - 1.0))
        if not float(jd1) > float(jd):
            raise Violation("monotonic", f"JD({iso(t)}+1s) <= JD({iso(t)})")
        if abs(d - 1.0) > 1e-4:
            raise Violation("spacing", f"JD difference of consecutive seconds is {d} s at {iso(t)}")
    # independent anchor: JD from the proleptic ordinal (exact rational), resolution of a double JD is 4.7e-10 d
    exact = Fraction(t.toordinal()) + Fraction(1721424.5) + Fraction(t.hour * 3600 + t.minute * 60 + t.second, 86400)
    e = abs(Fraction(float(jd)) - exact)
    rec.err("jd_abs_days", float(e))
    if e > Fraction(1, 10**9):
        raise Violation("jd_value", f"JD({iso(t)}) = {float(jd)!r}, ordinal-based reference {float(exact)!r}")
    # the inverse is monotone on the double grid around the instant as well
    eps = 2.0e-9  # days (0.17 ms); half a second is 5.8e-6 d
    lo = julianDateToDatetime(JulianDate(float(jd) - eps))
    hi = julianDateToDatetime(JulianDate(float(jd) + eps))
    if not (lo <= back <= hi):
        raise Violation("inverse_monotonic", f"julianDateToDatetime not monotone around {iso(t)}: {lo} {back} {hi}")
    if (hi - lo) > timedelta(seconds=1):
        raise Violation("inverse_jump", f"julianDateToDatetime jumps by {(hi - lo)} within 0.35 ms of {iso(t)}")


# ------------------------------------------------------------------------------------------------
def _st_cases():
    offs = st.one_of(
        st.integers(0, 30 * 86400).map(float),
        st.floats(0.0, 30 * 86400.0, allow_nan=False),
        st.builds(lambda k, dt: float(k * dt), st.integers(0, 5000), st.sampled_from([2, 3, 7, 10, 30, 60, 90, 300, 600])),
    )
    return st.builds(lambda t, o: {"start": iso(t), "offset_s": o}, instants(FIRST, date(2099, 11, 30)), offs)


@PROP.clause("scenario_time", strategy=_st_cases, quick=4000, thorough=200000, shards=2)
def scenario_time(case, rec):
    """ScenarioTime -> JulianDate -> ScenarioTime returns the offset to well below a millisecond"""
    from resonaate.physics.time.stardate import JulianDate, ScenarioTime, datetimeToJulianDate

    t0 = parse(case["start"])
    off = case["offset_s"]
    jd0 = datetimeToJulianDate(t0)
    jd = ScenarioTime(off).convertToJulianDate(jd0)
    if not isinstance(jd, JulianDate):
        raise Violation("type", "convertToJulianDate did not return a JulianDate")
    back = jd.convertToScenarioTime(jd0)
    if not isinstance(back, ScenarioTime):
        raise Violation("type", "convertToScenarioTime did not return a ScenarioTime")
    err = abs(float(back) - off)
    rec.err("roundtrip_s", err)
    if t0.second or off != int(off):
        rec.nontrivial([case["start"], off])
    if err > 1e-4:
        raise Violation("scenario_time_roundtrip", f"offset {off!r} s from {iso(t0)} came back as {float(back)!r} (err {err:.3e} s)")
    # agreement with the calendar: the JD of (start + offset) computed through datetime
    if off == int(off):
        jd_cal = datetimeToJulianDate(t0 + timedelta(seconds=int(off)))
        d = abs(float(jd_cal) - float(jd)) * 86400.0
        rec.err("calendar_vs_offset_s", d)
        if d > 1e-4:
            raise Violation("calendar_vs_offset", f"JD(start+{off}s) differs from start JD + offset by {d:.3e} s")
    # monotone in the offset
    jd_next = ScenarioTime(off + 1.0).convertToJulianDate(jd0)
    if not float(jd_next) > float(jd):
        raise Violation("monotonic", f"JD not increasing in scenario time at offset {off}")


# ------------------------------------------------------------------------------------------------
def _target_cases():
    return st.builds(
        lambda t, d: {"start": iso(t), "duration_s": d},
        instants(FIRST, date(2099, 11, 30)),
        st.one_of(st.integers(1, 3 * 86400), st.integers(1, 7200)),
    )


@PROP.clause("target_jd", strategy=_target_cases, quick=3000, thorough=100000, shards=2)
def target_jd(case, rec):
    """getTargetJulianDate(start_jd, D) is the Julian date of start + D (the stop time a user asks for)"""
    from resonaate.physics.time.conversions import getTargetJulianDate
    from resonaate.physics.time.stardate import datetimeToJulianDate, julianDateToDatetime

    t0 = parse(case["start"])
    d = case["duration_s"]
    jd0 = datetimeToJulianDate(t0)
    tgt = getTargetJulianDate(jd0, timedelta(seconds=d))
    want = t0 + timedelta(seconds=d)
    if t0.second or d % 60:
        rec.nontrivial([case["start"], d])
    got = julianDateToDatetime(tgt)
    if got != want:
        raise Violation("target_instant", f"target of {iso(t0)} + {d}s is {iso(got)}, expected {iso(want)}")
    err = abs((float(tgt) - float(jd0)) * 86400.0 - d)
    rec.err("target_offset_s", err)
    if err > 1e-4:
        raise Violation("target_offset", f"target JD - start JD = {d}s off by {err:.3e} s")


# ------------------------------------------------------------------------------------------------
def _timed_cases():
    from vf.strategies.instants import eop_instants

    dts = st.one_of(st.sampled_from([2, 3, 5, 7, 10, 30, 60, 90, 120, 300, 600]), st.integers(2, 900))

    def mk(t, dt, runs):
        out = []
        for k, frac in runs:
            r = 0 if frac is None else max(0, min(dt - 1, int(frac * dt)))
            out.append(k * dt + r)
        return {"start": iso(t), "dt": dt, "durations_s": out}

    run = st.tuples(st.integers(0, 12), st.one_of(st.none(), st.floats(0, 1, exclude_max=True), st.just(0.999)))
    return st.builds(mk, eop_instants(margin_days=3), dts, st.lists(run, min_size=1, max_size=3))


@PROP.clause("timed_run", strategy=_timed_cases, quick=160, thorough=4000, shards=8, shrink=True)
def timed_run(case, rec):
    """real Scenario.propagateTo for duration D advances floor(D/dt) steps; recorded epochs are start+k*dt"""
    from vf import scenario_kit as kit
    from resonaate.physics.time.conversions import getTargetJulianDate

    t0 = parse(case["start"])
    dt = case["dt"]
    durs = case["durations_s"]
    total = sum(durs)
    tgt = kit.eci_target(10001, kit.circular_state_over(10.0, 20.0, t0, 9000.0))
    sen = kit.ground_sensor(20001, 10.0, 20.0)
    cfg = kit.scenario_config(t0, t0 + timedelta(seconds=total + 2 * dt), dt, [kit.engine(1, [sen], [tgt])], truth_only=True)
    sc = kit.build(cfg)
    if t0.second or any(d % dt for d in durs):
        rec.nontrivial([case["start"], dt, durs])
    steps_done = 0
    for d in durs:
        calls = []
        orig = sc.stepForward

        def counted(_orig=orig, _calls=calls):
            _calls.append(1)
            return _orig()

        sc.stepForward = counted
        target = getTargetJulianDate(sc.clock.julian_date_epoch, timedelta(seconds=d))
        want = d // dt
        try:
            sc.propagateTo(target)
            raised = False
        except ValueError:
            raised = True
        finally:
            sc.stepForward = orig
        if raised and want > 0:
            raise Violation("refused", f"propagateTo refused a duration of {d}s >= step {dt}s from {iso(t0)}+{steps_done * dt}s")
        if len(calls) != want:
            raise Violation("step_count", f"duration {d}s with step {dt}s from {iso(t0)}+{steps_done * dt}s advanced {len(calls)} steps, expected {want}")
        steps_done += want
        now = t0 + timedelta(seconds=steps_done * dt)
        if sc.clock.datetime_epoch != now:
            raise Violation("clock_epoch", f"clock says {sc.clock.datetime_epoch}, expected {now}")
        if float(sc.clock.time) != steps_done * dt:
            raise Violation("clock_time", f"clock.time {float(sc.clock.time)} != {steps_done * dt}")
        for ag in list(sc.target_agents.values()) + list(sc.sensor_agents.values()):
            if float(ag.time) != steps_done * dt:
                raise Violation("agent_time", f"agent {ag.simulation_id} time {float(ag.time)} != {steps_done * dt}")
    # recorded epochs (truth rows join epochs): exactly start + k*dt, k = 0..steps_done
    rows = kit.raw_sql(
        "select distinct e.timestampISO, e.julian_date from truth_ephemerides t join epochs e on t.julian_date = e.julian_date "
        "order by e.julian_date")
    got = [datetime.fromisoformat(r[0]) for r in rows]
    want_epochs = [t0 + timedelta(seconds=k * dt) for k in range(steps_done + 1)]
    if got != want_epochs:
        raise Violation("recorded_epochs", f"recorded epochs {[iso(g) for g in got][:6]}.. (n={len(got)}), expected start+k*{dt}s for k=0..{steps_done}")
    n_rows = kit.raw_sql("select count(*) from truth_ephemerides")[0][0]
    if n_rows != 2 * (steps_done + 1):
        raise Violation("recorded_rows", f"{n_rows} truth rows for 2 agents and {steps_done + 1} epochs")
    from resonaate.physics.time.stardate import datetimeToJulianDate

    for (ts, jd), w in zip(rows, want_epochs):
        if abs(float(jd) - float(datetimeToJulianDate(w))) * 86400 > 1e-4:
            raise Violation("recorded_jd", f"epoch row {ts} has JD {jd!r}, off from calendar by more than 0.1 ms")
    # every row of the epochs table (the clock writes the whole configured span in advance): on the grid start + k*dt, never
    # beyond the configured span, Julian date and timestamp in agreement, no duplicates
    span = total + 2 * dt
    all_rows = kit.raw_sql("select timestampISO, julian_date from epochs order by julian_date")
    seen = set()
    for ts, jd in all_rows:
        when = datetime.fromisoformat(ts)
        off = (when - t0).total_seconds()
        if off < 0 or off > span or off % dt != 0:
            raise Violation("epoch_off_grid", f"epochs table holds {ts} = start+{off}s, not start + k*{dt}s within the configured span of {span}s")
        if abs(float(jd) - float(datetimeToJulianDate(when))) * 86400 > 1e-4:
            raise Violation("recorded_jd", f"epoch row {ts} has JD {jd!r}, off from its own timestamp by more than 0.1 ms")
        if ts in seen:
            raise Violation("epoch_duplicate", f"epoch {ts} stored twice")
        seen.add(ts)
    if span % dt:
        rec.label("span_not_multiple_of_step")


# ------------------------------------------------------------------------------------------------
# the entry point a user actually calls: runResonaate(config, sim_time_hours)
# ------------------------------------------------------------------------------------------------
def _low_products(dt, kmax=14):
    """Durations k*dt whose hour value, multiplied back by 3600 in floating point, lands just below the whole second (4% of all)."""
    return [k * dt for k in range(1, kmax + 1) if (k * dt / 3600.0) * 3600.0 < k * dt]


_LOW_STEPS = [dt for dt in range(2, 901) if _low_products(dt)]


@st.composite
def _entry_cases(draw):
    from vf.strategies.instants import eop_instants

    if draw(st.booleans()):
        dt = draw(st.sampled_from(_LOW_STEPS))
        d = draw(st.sampled_from(_low_products(dt)))
    else:
        dt = draw(st.one_of(st.sampled_from([2, 3, 5, 7, 10, 30, 60, 90, 120, 300, 600]), st.integers(2, 900)))
        d = draw(st.integers(1, 12)) * dt + draw(st.sampled_from([0, 0, 0, 1, dt - 1, dt // 2]))
    return {"start": iso(draw(eop_instants(margin_days=3))), "dt": dt, "duration_s": d}


@PROP.clause("run_entry", strategy=_entry_cases, quick=100, thorough=3000, shards=8)
def run_entry(case, rec):
    """runResonaate(config, sim_time_hours = D/3600) - the call behind the command line - advances floor(D/dt) steps"""
    import resonaate
    import resonaate.scenario as rscenario
    from vf import scenario_kit as kit

    t0 = parse(case["start"])
    dt, d = case["dt"], case["duration_s"]
    hours = d / 3600.0
    tgt = kit.eci_target(10001, kit.circular_state_over(10.0, 20.0, t0, 9000.0))
    sen = kit.ground_sensor(20001, 10.0, 20.0)
    cfg = kit.scenario_config(t0, t0 + timedelta(seconds=d + 2 * dt), dt, [kit.engine(1, [sen], [tgt])], truth_only=True)
    built = {}
    calls = []

    def builder(_init_message, internal_db_path=None, importer_db_path=None):  # noqa: ARG001
        sc = kit.build(cfg)
        orig = sc.stepForward

        def counted():
            calls.append(1)
            return orig()

        sc.stepForward = counted
        sc.shutdown = lambda: None  # (writes a Ray timeline file into the working directory)
        built["sc"] = sc
        return sc

    # (runResonaate looks the reader up in resonaate.scenario when called; a module-level import would bind it in resonaate itself)
    keep = rscenario.buildScenarioFromConfigFile
    keep_top = getattr(resonaate, "buildScenarioFromConfigFile", None)
    rscenario.buildScenarioFromConfigFile = builder
    if keep_top is not None:
        resonaate.buildScenarioFromConfigFile = builder
    try:
        try:
            resonaate.runResonaate("harness-built configuration", sim_time_hours=hours)
            raised = None
        except ValueError as err:
            raised = err
        except Exception:
            if "sc" not in built:
                # the entry point did not go through the replaced reader (it tried to open the placeholder path): nothing was exercised
                raise Skip("runResonaate did not use the replaced configuration-file reader")
            raise
    finally:
        rscenario.buildScenarioFromConfigFile = keep
        if keep_top is not None:
            resonaate.buildScenarioFromConfigFile = keep_top
    if "sc" not in built:
        raise Skip("runResonaate did not use the replaced configuration-file reader")
    want = d // dt
    if hours * 3600.0 < d:
        rec.label("hours_times_3600_below_whole_second")
        rec.nontrivial([case["start"], dt, d])
    elif d % dt:
        rec.label("duration_not_multiple_of_step")
    if raised is not None and want > 0:
        raise Violation("refused", f"runResonaate refused {hours!r} h = {d}s with step {dt}s from {case['start']}: {raised!r}")
    if len(calls) != want:
        raise Violation("entry_step_count", f"runResonaate(sim_time_hours={hours!r}) = {d}s with step {dt}s from {case['start']} advanced {len(calls)} steps, expected {want}")
    sc = built["sc"]
    if sc.clock.datetime_epoch != t0 + timedelta(seconds=want * dt) or float(sc.clock.time) != want * dt:
        raise Violation("entry_clock", f"after runResonaate({hours!r} h) the clock stands at {sc.clock.datetime_epoch} / {float(sc.clock.time)}s, expected start+{want * dt}s")
