"""C08 - tasking bookkeeping is exact and independent of the order parallel jobs finish."""

from __future__ import annotations

import math
from collections import Counter
from datetime import timedelta

import numpy as np
from hypothesis import strategies as st

from vf import raydouble
from vf import scenario_kit as kit  # installs the Ray double before resonaate is imported
from vf.oracles import geodesy
from vf.runner import Prop, Violation
from vf.strategies.instants import eop_instants, iso, parse

PROP = Prop(
    "C08",
    rule=(
        "Hypothesis networks of 1-4 ground sensors (adv_radar / radar, cone FoV 2..179 deg, slew rates from crawling to fast) x 1-5 "
        "targets constructed visible above the sites, every decision policy (all-visible only on adv_radar networks), initial "
        "estimate errors from metres to larger than the field of view (so that tasked attempts miss), 2-4 steps of the real Scenario on "
        "the in-process Ray double; each case is executed under several completion orders of every job batch (FIFO, LIFO and drawn "
        "permutations; the double decides which pending job finishes next). Non-trivial = a step in which >= 2 task-execution jobs ran, or a "
        "sensor was tasked to >= 2 targets, or a tasked attempt missed; distinct by (network shape, policy, schedules)."
    ),
    assumptions=[
        "measurement noise is drawn from a generator keyed by (sensor state, target state, epoch) instead of NumPy's global stream, so "
        "observations are comparable across schedules (the property allows them to differ 'up to their random noise')",
        "estimates are compared at 1e-9 relative (reordering simultaneous observations changes rounding only, C16), everything else exactly",
        "the in-process Ray double runs a job's body when the harness lets it finish; jobs act on serialised copies as under Ray",
    ],
)
kit.install_keyed_noise()

SITE = (12.0, 25.0)
R_TGT = 20000.0
POLICIES = ["MunkresDecision", "MyopicNaiveGreedyDecision", "RandomDecision", "AllVisibleDecision"]


@st.composite
def _cases(draw):
    t0 = draw(eop_instants(margin_days=3))
    policy = draw(st.sampled_from(POLICIES))
    ns = draw(st.integers(1, 4))
    nt = draw(st.integers(1, 5))
    sensors = []
    for i in range(ns):
        kind = "adv_radar" if policy == "AllVisibleDecision" else draw(st.sampled_from(["adv_radar", "radar"]))
        sensors.append({"kind": kind, "cone": draw(st.sampled_from([2.0, 20.0, 179.0])), "slew": draw(st.sampled_from([0.002, 0.5, 10.0])),
                        "bg": draw(st.booleans())})
    targets = [{"dlat": draw(st.floats(-6, 6)), "dlon": draw(st.floats(-6, 6)), "head": draw(st.floats(0, 360)),
                "kick": draw(st.sampled_from([0.0, 0.0, 3.0, 6.0]))} for _ in range(nt)]
    return {"start": iso(t0), "policy": policy, "sensors": sensors, "targets": targets, "dt": draw(st.sampled_from([30, 60])),
            "n": draw(st.integers(2, 4)), "pos_std": draw(st.sampled_from([1e-3, 1.0, 30.0])),
            "schedules": [draw(st.lists(st.integers(0, 23), min_size=4, max_size=12)) for _ in range(2)],
            "seed": draw(st.integers(0, 10**6)), "background": draw(st.booleans()), "save_every": draw(st.sampled_from([1, 1, 2, 3])),
            # low orbits: the initial estimate error is degrees as seen from the site, so narrow fields of view miss at first and
            # observe once another sensor's observation has pulled the estimate in (a miss and an observation of one pair in
            # consecutive steps)
            "r_tgt": draw(st.sampled_from([R_TGT, R_TGT, 8000.0]))}


def _config(c):
    t0 = parse(c["start"])
    sens, tgts = [], []
    for i, s in enumerate(c["sensors"]):
        sens.append(kit.ground_sensor(21001 + i, SITE[0] + 1.5 * i, SITE[1] + 2.0 * i, kind=s["kind"], slew_rate=s["slew"],
                                      field_of_view={"fov_shape": "conic", "cone_angle": s["cone"]}, background_observations=s["bg"],
                                      # coarse measurements: with the huge initial covariances needed to provoke misses, arc-second
                                      # radars make the UKF covariance update lose positive definiteness (outside C08)
                                      covariance=[[1e-6, 0, 0, 0], [0, 1e-6, 0, 0], [0, 0, 1.0, 0], [0, 0, 0, 1e-6]]))
    for j, t in enumerate(c["targets"]):
        st_ = kit.circular_state_over(SITE[0], SITE[1], t0, c.get("r_tgt", R_TGT) + 300.0 * j, heading_deg=t["head"], offset_deg=(t["dlat"], t["dlon"]))
        tgts.append(kit.eci_target(11001 + j, st_))
    # an unplanned impulse on the truth (the estimate keeps following the old orbit) is the realistic route to a tasked
    # attempt that misses: predicted visible on the estimate, truth outside a narrow field of view
    events = []
    for j, t in enumerate(c["targets"]):
        if t.get("kick"):
            pos = np.array(tgts[j]["state"]["position"])
            dv = (t["kick"] * pos / np.linalg.norm(pos)).tolist()
            events.append({"scope": "agent_propagation", "scope_instance_id": 11001 + j, "event_type": "impulse", "thrust_vector": dv,
                           "thrust_frame": "eci", "planned": False,
                           "start_time": (t0 + timedelta(seconds=c["dt"])).strftime("%Y-%m-%dT%H:%M:%S.000Z")})
    extra = {"seed": c["seed"] % 1000} if c["policy"] == "RandomDecision" else None
    eng = kit.engine(1, sens, tgts, decision=c["policy"], decision_extra=extra)
    return kit.scenario_config(t0, t0 + timedelta(seconds=(c["n"] + 1) * c["dt"]), c["dt"], [eng], events=events,
                               noise={"init_position_std_km": c["pos_std"], "init_velocity_std_km_p_sec": max(1e-4, c["pos_std"] * 2e-4), "random_seed": 4321},
                               observation={"background": c["background"], "realtime_observation": True},
                               # alpha = 0.5: with the default 1e-3 and 300+ km initial errors the UKF covariance update turns
                               # indefinite after the first observation (filter tuning, outside C08)
                               seq_filter={"alpha": 0.5})


def _policy(name):
    """A fresh decision object of the named policy (fresh: nothing kept from earlier calls)."""
    from resonaate.scenario.config import constructFromUnion
    from resonaate.scenario.config.decision_config import DecisionConfig
    from resonaate.tasking.decisions import decisionFactory

    return decisionFactory(constructFromUnion(DecisionConfig, {"name": name}))


def _unit(v):
    v = np.asarray(v, dtype=float)
    return v / np.linalg.norm(v)


def _run(c, schedule, rec=None):
    """Run the case under one schedule; returns per-step snapshots."""
    from resonaate.physics.transforms.methods import eci2ecef

    sched = list(schedule) if schedule is not None else None
    counter = {"i": 0}

    def pick(n, refs):
        if sched == "lifo":
            return n - 1
        if not sched:
            return 0
        counter["i"] += 1
        return sched[counter["i"] % len(sched)] % n

    raydouble.set_scheduler(None if schedule is None else (lambda n, refs: (n - 1) if schedule == "lifo" else pick(n, refs)))
    try:
        sc = kit.build(_config(c))
        eng = sc.tasking_engines[1]
        t0 = parse(c["start"])
        snaps = []
        pre = {}
        orig_assess = eng.assess

        def assess(prior, now, _orig=orig_assess):
            pre["est"] = {tid: np.array(e.eci_state, dtype=float) for tid, e in sc.estimate_agents.items()}
            pre["sen"] = {sid: (np.array(s.sensors.boresight, dtype=float), float(s.sensors.time_last_tasked), np.array(s.eci_state, dtype=float))
                          for sid, s in sc.sensor_agents.items()}
            pre["batch0"] = raydouble.stats["tasks_run"]
            return _orig(prior, now)

        eng.assess = assess
        pending = []
        save_every = c.get("save_every", 1)
        for k in range(1, c["n"] + 1):
            sc.stepForward()
            when = t0 + timedelta(seconds=k * c["dt"])
            obs = sorted((o.sensor_id, o.target_id, round(float(o.julian_date), 9), tuple(float(x) for x in o.measurement_states)) for o in eng.observations)
            miss = sorted((m.sensor_id, m.target_id, str(m.reason)) for m in eng.missed_observations)
            jd = float(sc.clock.julian_date_epoch)
            snaps.append({
                "k": k, "when": when, "decision": eng.decision_matrix.copy(), "visibility": eng.visibility_matrix.copy(), "reward": eng.reward_matrix.copy(),
                "targets": list(eng.target_list), "sensors": list(eng.sensor_list), "obs": obs, "miss": miss,
                "sensor_state": {sid: (np.array(s.sensors.boresight, dtype=float), float(s.sensors.time_last_tasked)) for sid, s in sc.sensor_agents.items()},
                "est": {tid: (np.array(e.eci_state, dtype=float), np.array(e.nominal_filter.est_p, dtype=float)) for tid, e in sc.estimate_agents.items()},
                "pre": {"est": dict(pre["est"]), "sen": dict(pre["sen"])},
                "db": None, "output_epoch": (k % save_every == 0 or k == c["n"]),
                "time": float(sc.clock.time),
            })
            # the output cadence may be a multiple of the step: the records of the steps in between wait in the engine
            pending.append((len(snaps) - 1, jd))
            if k % save_every == 0 or k == c["n"]:
                sc.saveDatabaseOutput()
                for idx, jd_k in pending:
                    db_obs = sorted(kit.raw_sql("select sensor_id, target_id, azimuth_rad, elevation_rad, range_km, range_rate_km_p_sec from observations where abs(julian_date - ?) < 1e-8", (jd_k,)))
                    db_miss = sorted(kit.raw_sql("select sensor_id, target_id, reason from missed_observations where abs(julian_date - ?) < 1e-8", (jd_k,)))
                    db_task = sorted(kit.raw_sql("select target_id, sensor_id, visibility, reward, decision from tasks where abs(julian_date - ?) < 1e-8", (jd_k,)))
                    snaps[idx]["db"] = (db_obs, db_miss, db_task)
                pending = []
        return snaps
    finally:
        raydouble.set_scheduler(None)


def _bookkeeping(c, snaps, rec):
    """(i) one record per tasked pair, (ii) pointing state reflects the tasking - on one run."""
    from resonaate.physics.transforms.methods import eci2ecef

    nontrivial = False
    for s in snaps:
        d = s["decision"]
        tl, sl = s["targets"], s["sensors"]
        tasked = [(sl[j], tl[i]) for i in range(d.shape[0]) for j in range(d.shape[1]) if d[i, j]]
        jobs = sum(1 for i in range(d.shape[0]) if d[i].any())
        multi = any(d[:, j].sum() > 1 for j in range(d.shape[1]))
        obs_pairs = Counter((o[0], o[1]) for o in s["obs"])
        miss_pairs = Counter((m[0], m[1]) for m in s["miss"])
        if jobs >= 2 or multi or s["miss"]:
            nontrivial = True
        if jobs >= 2:
            rec.label("steps_with>=2_jobs")
        if multi:
            rec.label("sensor_tasked_to>=2_targets")
        for pair in tasked:
            n_o, n_m = obs_pairs.get(pair, 0), miss_pairs.get(pair, 0)
            if n_o + n_m != 1:
                raise Violation("record_count", f"step {s['k']}: tasked pair sensor {pair[0]} -> target {pair[1]} has {n_o} observation(s) and {n_m} miss record(s) (policy {c['policy']}, decision {d.astype(int).tolist()}, observations {[(o[0], o[1]) for o in s['obs']]}, misses {s['miss']})")
        for pair, n_m in miss_pairs.items():
            if pair not in tasked:
                raise Violation("miss_untasked", f"step {s['k']}: miss record for {pair} which was not tasked")
            rec.label("miss:" + [m[2] for m in s["miss"] if (m[0], m[1]) == pair][0])
        for pair, n_o in obs_pairs.items():
            if n_o > 1:
                raise Violation("observation_duplicated", f"step {s['k']}: {n_o} observations of target {pair[1]} by sensor {pair[0]} in one step (policy {c['policy']}, decision {d.astype(int).tolist()})")
        # stored rows of this step equal the engine's records
        db_obs, db_miss, db_task = s["db"]
        rec.label("stored_with_later_output_epoch" if not s.get("output_epoch", True) else "stored_at_own_epoch")
        if sorted((r[0], r[1]) for r in db_obs) != sorted((o[0], o[1]) for o in s["obs"]):
            raise Violation("stored_observations", f"step {s['k']}: stored observation rows {[(r[0], r[1]) for r in db_obs]} != engine observations {[(o[0], o[1]) for o in s['obs']]}")
        if sorted((r[0], r[1]) for r in db_miss) != sorted((m[0], m[1]) for m in s["miss"]):
            raise Violation("stored_misses", f"step {s['k']}: stored miss rows {[(r[0], r[1]) for r in db_miss]} != engine misses {[(m[0], m[1]) for m in s['miss']]}")
        # (task rows are written for output epochs only; observations and misses of the steps in between are kept and written later)
        if s.get("output_epoch", True) and (len(db_task) != d.size or sum(1 for r in db_task if r[4]) != int(d.sum())):
            raise Violation("stored_tasks", f"step {s['k']}: {len(db_task)} task rows with {sum(1 for r in db_task if r[4])} decisions for a {d.shape} decision matrix with {int(d.sum())} taskings")
        # the decision the engine acted on is the configured policy applied to the step's reward and visibility matrices
        # (random policy: feasibility only; its draw is not reproducible from outside)
        if c["policy"] != "RandomDecision":
            want_d = _policy(c["policy"]).calculate(s["reward"].copy(), s["visibility"].copy())
            if not np.array_equal(np.asarray(want_d, dtype=bool), d):
                raise Violation("engine_decision", f"step {s['k']}: the engine's decision {d.astype(int).tolist()} is not {c['policy']} applied to its reward {s['reward'].tolist()} and visibility {s['visibility'].astype(int).tolist()} (that gives {np.asarray(want_d).astype(int).tolist()})")
        elif np.any(d & ~s["visibility"]):
            raise Violation("engine_decision", f"step {s['k']}: random decision tasks an invisible pair")
        # (ii) pointing state
        for j, sid in enumerate(sl):
            tgt_rows = [i for i in range(d.shape[0]) if d[i, j]]
            b_prev, t_prev, sen_eci = s["pre"]["sen"][sid]
            b_now, t_now = s["sensor_state"][sid]
            if not tgt_rows:
                if not np.array_equal(b_now, b_prev) or t_now != t_prev:
                    raise Violation("untasked_sensor_changed", f"step {s['k']}: sensor {sid} was not tasked but its pointing state changed")
                continue
            cands = []
            for i in tgt_rows:
                est = s["pre"]["est"][tl[i]]
                lat, lon = math.radians(SITE[0] + 1.5 * (sid - 21001)), math.radians(SITE[1] + 2.0 * (sid - 21001))
                rel = eci2ecef(est, s["when"])[:3] - eci2ecef(sen_eci, s["when"])[:3]
                e, n, u = geodesy.enu_basis(lat, lon)
                sez = np.array([-rel.dot(n), rel.dot(e), rel.dot(u)])
                ang = math.atan2(np.linalg.norm(np.cross(_unit(sez), b_prev)), float(np.dot(_unit(sez), b_prev)))
                slew = math.radians(c["sensors"][sid - 21001]["slew"]) * (s["time"] - t_prev)
                cands.append((tl[i], _unit(sez), ang, slew))
            reachable = [cd for cd in cands if cd[3] >= cd[2] * (1 + 1e-9)]
            blocked = [cd for cd in cands if cd[3] < cd[2] * (1 - 1e-9)]
            if len(reachable) == len(cands):
                if t_now != s["time"]:
                    raise Violation("time_last_tasked", f"step {s['k']}: tasked sensor {sid} could slew but time_last_tasked is {t_now!r}, step time {s['time']!r}")
                if not any(np.linalg.norm(b_now - cd[1]) < 1e-6 for cd in cands):
                    raise Violation("boresight", f"step {s['k']}: tasked sensor {sid} boresight {b_now.tolist()} does not point at (the estimate of) any of its targets {[cd[0] for cd in cands]}")
            elif len(blocked) == len(cands):
                if not np.array_equal(b_now, b_prev) or t_now != t_prev:
                    raise Violation("blocked_sensor_changed", f"step {s['k']}: sensor {sid} could not slew to any of its targets but its pointing state changed")
                for cd in cands:
                    if not any(m[0] == sid and m[1] == cd[0] and "Slew" in m[2] or (m[0] == sid and m[1] == cd[0] and "slew" in m[2].lower()) for m in s["miss"]):
                        raise Violation("slew_miss_reason", f"step {s['k']}: sensor {sid} could not slew to target {cd[0]} (needs {cd[2]:.4f} rad, can do {cd[3]:.4f}) but no slew-distance miss is recorded: {s['miss']}")
    return nontrivial


def _same(a, b, what, k, label):
    if isinstance(a, np.ndarray):
        ok = a.shape == b.shape and np.array_equal(a, b)
    else:
        ok = a == b
    if not ok:
        raise Violation(label, f"step {k}: {what} depends on the order the parallel jobs finish: {a if not isinstance(a, np.ndarray) else a.tolist()} vs {b if not isinstance(b, np.ndarray) else b.tolist()}")


@PROP.clause("schedules", strategy=_cases, quick=96, thorough=2400, shards=16)
def schedules(c, rec):
    """bookkeeping on every run; full step snapshots identical across completion orders of every job batch"""
    runs = [("fifo", None), ("lifo", "lifo")] + [(f"perm{i}", s) for i, s in enumerate(c["schedules"])]
    base = None
    nontrivial = False
    for name, sched in runs:
        try:
            snaps = _run(c, sched)
        except np.linalg.LinAlgError:
            from vf.runner import Skip

            # the UKF covariance lost positive definiteness (filter tuning/robustness, outside C08): nothing to compare
            raise Skip("UKF covariance not positive definite")
        nontrivial = _bookkeeping(c, snaps, rec) or nontrivial
        if base is None:
            base = snaps
            continue
        for s0, s1 in zip(base, snaps):
            k = s0["k"]
            for key, label in (("visibility", "order_visibility"), ("reward", "order_reward"), ("decision", "order_decision")):
                _same(s0[key], s1[key], f"{key} matrix ({name} vs fifo)", k, label)
            _same([(o[0], o[1]) for o in s0["obs"]], [(o[0], o[1]) for o in s1["obs"]], f"set of observations ({name} vs fifo)", k, "order_observations")
            _same(s0["obs"], s1["obs"], f"observation values with keyed noise ({name} vs fifo)", k, "order_observation_values")
            _same(s0["miss"], s1["miss"], f"missed observations ({name} vs fifo)", k, "order_misses")
            for sid in s0["sensor_state"]:
                _same(s0["sensor_state"][sid][0], s1["sensor_state"][sid][0], f"boresight of sensor {sid} ({name} vs fifo)", k, "order_boresight")
                _same(s0["sensor_state"][sid][1], s1["sensor_state"][sid][1], f"time_last_tasked of sensor {sid} ({name} vs fifo)", k, "order_time_last_tasked")
            for tid in s0["est"]:
                x0, p0 = s0["est"][tid]
                x1, p1 = s1["est"][tid]
                # rounding-level differences only (C16: reordering stacked observations changes the posterior by <= 1e-8 of the
                # *prior* covariance scale, which can be 1e3 x the posterior's)
                if np.linalg.norm(x0 - x1) > 1e-8 * (1 + np.linalg.norm(x0)) or np.abs(p0 - p1).max() > 1e-5 * (1e-12 + np.abs(p0).max()):
                    raise Violation("order_estimate", f"step {k}: estimate of target {tid} depends on job completion order ({name} vs fifo): |dx| = {np.linalg.norm(x0 - x1):.3e}")
            _same(s0["db"], s1["db"], f"stored observation/miss/task rows ({name} vs fifo)", k, "order_stored_rows")
    if nontrivial:
        rec.nontrivial([c["policy"], len(c["sensors"]), len(c["targets"]), c["pos_std"], tuple(s["cone"] for s in c["sensors"]), c["n"], hash(str(c["schedules"])) % 1000])
    rec.label("policy:" + c["policy"])


# ------------------------------------------------------------------------------------------------
def _two_engine_cases():
    return st.builds(lambda t, dt, n, pol, heads: {"start": iso(t), "dt": dt, "n": n, "policy": pol, "heads": heads},
                     eop_instants(margin_days=3), st.sampled_from([30, 60]), st.integers(2, 4),
                     st.sampled_from(["MunkresDecision", "MyopicNaiveGreedyDecision", "AllVisibleDecision"]),
                     st.lists(st.floats(0, 360), min_size=4, max_size=4))


@PROP.clause("two_engines", strategy=_two_engine_cases, quick=32, thorough=640, shards=16)
def two_engines(c, rec):
    """two tasking engines in one scenario: after every step the pointing state of every engine's tasked sensors reflects that step's tasking"""
    t0 = parse(c["start"])
    dt, n = c["dt"], c["n"]
    cov = [[1e-6, 0, 0, 0], [0, 1e-6, 0, 0], [0, 0, 1.0, 0], [0, 0, 0, 1e-6]]
    engines = []
    for e in (0, 1):
        sens = [kit.ground_sensor(21001 + 10 * e, SITE[0] + 3.0 * e, SITE[1] - 2.0 * e, kind="adv_radar", slew_rate=10.0,
                                  field_of_view={"fov_shape": "conic", "cone_angle": 40.0}, covariance=cov)]
        tgts = [kit.eci_target(11001 + 10 * e + j, kit.circular_state_over(SITE[0] + 3.0 * e, SITE[1] - 2.0 * e, t0, R_TGT + 400.0 * j,
                                                                           heading_deg=c["heads"][2 * e + j], offset_deg=(1.0 - j, 0.5 * j))) for j in (0, 1)]
        engines.append(kit.engine(1 + e, sens, tgts, decision=c["policy"]))
    cfg = kit.scenario_config(t0, t0 + timedelta(seconds=(n + 1) * dt), dt, engines, seq_filter={"alpha": 0.5},
                              noise={"init_position_std_km": 1e-3, "init_velocity_std_km_p_sec": 1e-6, "random_seed": 4321})
    try:
        sc = kit.build(cfg)
        for k in range(1, n + 1):
            sc.stepForward()
            for eid, eng in sc.tasking_engines.items():
                observed = {(o.sensor_id, o.target_id) for o in eng.observations}
                d = np.asarray(eng.decision_matrix, dtype=bool)
                for j, sid in enumerate(eng.sensor_list):
                    tasked = [eng.target_list[i] for i in range(d.shape[0]) if d[i, j]]
                    if not any((sid, tid) in observed for tid in tasked):
                        continue
                    # the sensor produced an observation of a target it was tasked to, so it slewed in this step
                    rec.nontrivial([c["start"], dt, k, eid, c["policy"]])
                    tlt = float(sc.sensor_agents[sid].sensors.time_last_tasked)
                    if tlt != float(sc.clock.time):
                        raise Violation("time_last_tasked", f"step {k}: sensor {sid} of engine {eid} observed its tasked target but its last-tasked time is {tlt}, step time {float(sc.clock.time)} ({len(sc.tasking_engines)} engines, policy {c['policy']})")
    except np.linalg.LinAlgError:
        from vf.runner import Skip

        raise Skip("UKF covariance not positive definite")
