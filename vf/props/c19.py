"""C19 - imported ephemerides/observations are used faithfully; importer stays read-only."""

from __future__ import annotations

import hashlib
import os
import shutil
import sqlite3
import tempfile
from datetime import timedelta

import numpy as np
from hypothesis import strategies as st

from vf import scenario_kit as kit  # installs the Ray double before resonaate is imported
from vf.runner import Prop, Violation
from vf.strategies.instants import eop_instants, iso, parse

PROP = Prop(
    "C19",
    rule=(
        "Hypothesis: an importer database produced the way users produce one (the output file of a previous real run of the same "
        "agents), then edited with plain sqlite3: 0-5 unrelated extra agents with ephemerides at every epoch, gaps at drawn (agent, "
        "epoch) pairs, a scenario agent missing entirely; importing scenarios with imported targets and realtime or imported sensors, "
        "imported or realtime observations, 2-8 steps, run on the in-process Ray double. Non-trivial = importer with extra agents and "
        "a gap, or imported observations present; distinct by (steps, extras, gaps, modes)."
    ),
    assumptions=[
        "the importer file is compared by SHA-256 and by a logical dump before/after the run",
        "observations reaching a filter are observed by wrapping EstUpdateRegistration on the harness side",
    ],
)
kit.install_keyed_noise()

SITE = (-15.0, 100.0)
TGT = (15001, 15002)
SEN = (25001, 25002)


@st.composite
def _cases(draw):
    t0 = draw(eop_instants(margin_days=3))
    n = draw(st.integers(2, 8))
    gaps = []
    for _ in range(draw(st.sampled_from([0, 0, 1, 2]))):
        gaps.append({"agent": draw(st.sampled_from(list(TGT) + [SEN[0]])), "step": draw(st.integers(1, n))})
    return {"start": iso(t0), "dt": draw(st.sampled_from([30, 60, 300, 225, 675])), "n": n, "extras": draw(st.integers(0, 5)), "gaps": gaps,
            "missing_agent": draw(st.sampled_from([None, None, None, TGT[1]])), "sensors_imported": draw(st.booleans()), "targets_realtime": draw(st.sampled_from([False, False, True])),
            "obs_imported": draw(st.booleans()), "obs_both": draw(st.sampled_from([False, False, True])),
            # Julian dates in the importer: as the producing run accumulated them (start + k*dt/86400), or the calendar conversion of
            # each epoch's timestamp (what an external tool or ImporterDatabase.loadEphemerisFile stores) - one ulp apart for ~30%
            "jd_mode": draw(st.sampled_from(["as_produced", "calendar", "calendar"])),
            # a second sensor at the same site as the ground sensor (a radar next to a radar): every stored observation of the first is
            # also stored for the second - same epoch, same target, same sensor position, different sensor
            "colocated": draw(st.sampled_from([False, False, True])),
            # an importer written by a tool (or an older version) that knows fewer tables: one table the run never reads is absent
            "absent_table": draw(st.sampled_from([None, None, None, "detected_maneuvers", "missed_observations", "tasks"])),
            # the importing scenario may split the same agents over two tasking engines (each sensor/target pair of the source
            # run stays inside one engine)
            "two_engines": draw(st.sampled_from([False, False, "same_split", "split_only_importing", "shared_target"]))}


SEN3 = 25003


def _agents(t0, colocated=False):
    tgts = [kit.eci_target(TGT[0], kit.circular_state_over(SITE[0], SITE[1], t0, 20000.0, heading_deg=30.0)),
            kit.eci_target(TGT[1], kit.circular_state_over(SITE[0], SITE[1], t0, 21000.0, heading_deg=100.0, offset_deg=(3.0, -2.0)))]
    cov = [[1e-7, 0, 0, 0], [0, 1e-7, 0, 0], [0, 0, 0.01, 0], [0, 0, 0, 1e-7]]
    sens = [kit.ground_sensor(SEN[0], SITE[0], SITE[1], covariance=cov),
            kit.space_sensor(SEN[1], kit.circular_state_over(SITE[0], SITE[1], t0, 9000.0, heading_deg=200.0, offset_deg=(1.0, 1.0)), kind="adv_radar", covariance=cov)]
    if colocated:
        sens.append(kit.ground_sensor(SEN3, SITE[0], SITE[1], covariance=cov))
    return tgts, sens


def _sha(path):
    with open(path, "rb") as fh:
        return hashlib.sha256(fh.read()).hexdigest()


def _dump(path):
    con = sqlite3.connect(path)
    try:
        return hashlib.sha256("\n".join(con.iterdump()).encode()).hexdigest()
    finally:
        con.close()


@PROP.clause("importer", strategy=_cases, quick=64, thorough=1600, shards=16)
def importer(c, rec):
    """imported agents take exactly the importer's record each step; a registered agent without a record stops the run; stored observations reach their target's filter; importer file untouched"""
    from resonaate.common.exceptions import MissingEphemerisError
    from resonaate.parallel import estimate_update as eu
    from resonaate.physics.time.stardate import datetimeToJulianDate

    t0 = parse(c["start"])
    dt, n = c["dt"], c["n"]
    tmp = tempfile.mkdtemp(prefix="vf-c19-")
    try:
        src = os.path.join(tmp, "source.sqlite3")
        imp = os.path.join(tmp, "importer.sqlite3")
        tgts, sens = _agents(t0, bool(c.get("colocated")))
        sens_a, sens_b = [sens[0]] + sens[2:], [sens[1]]  # the co-located sensor shares the ground sensor's engine
        # ---- phase A: a previous realtime run produces the importer database ----------------------------
        # (with two engines both runs use the same split, so that every stored observation's sensor and target share an engine)
        mode = c.get("two_engines")
        mode = "same_split" if mode is True else (mode or None)
        split = [kit.engine(1, sens_a, tgts[:1]), kit.engine(2, sens_b, tgts[1:])]
        shared = [kit.engine(1, sens_a, tgts), kit.engine(2, sens_b, tgts[1:])]  # target 2 belongs to both engines
        engines = [kit.engine(1, sens, tgts)] if mode in (None, "split_only_importing") else (split if mode == "same_split" else shared)
        cfg_a = kit.scenario_config(t0, t0 + timedelta(seconds=(n + 1) * dt), dt, engines, seq_filter={"alpha": 0.5})
        try:
            sc = kit.build(cfg_a, db_file=src)
            sc.propagateTo(datetimeToJulianDate(t0 + timedelta(seconds=n * dt)))
        except np.linalg.LinAlgError:
            from vf.runner import Skip

            raise Skip("UKF covariance not positive definite in the source run")
        kit.fresh_db()  # release the file
        shutil.copy(src, imp)
        con = sqlite3.connect(imp)
        cur = con.cursor()
        epochs = cur.execute("select julian_date, timestampISO from epochs order by julian_date").fetchall()
        if c.get("jd_mode") == "calendar":
            tables = [r[0] for r in cur.execute("select name from sqlite_master where type = 'table'").fetchall()]
            with_jd = [t for t in tables if any(col[1] == "julian_date" for col in cur.execute(f"pragma table_info({t})").fetchall())]
            cur.execute("pragma foreign_keys = off")
            moved = 0
            for jd, ts in epochs:
                new_jd = float(datetimeToJulianDate(parse(ts)))
                if new_jd != jd:
                    moved += 1
                    for t in with_jd:
                        cur.execute(f"update {t} set julian_date = ? where julian_date = ?", (new_jd, jd))
            con.commit()
            rec.label("importer_julian_dates:calendar" + (":some_differ_from_the_clock" if moved else ":all_equal_to_the_clock"))
            epochs = cur.execute("select julian_date, timestampISO from epochs order by julian_date").fetchall()
        jd_of = {int(round((parse(ts) - t0).total_seconds() / dt)): jd for jd, ts in epochs}
        for k in range(c["extras"]):
            aid = 99001 + k
            cur.execute("insert into agents (unique_id, name) values (?, ?)", (aid, f"extra{k}"))
            cur.execute("insert into truth_ephemerides (julian_date, agent_id, pos_x_km, pos_y_km, pos_z_km, vel_x_km_p_sec, vel_y_km_p_sec, vel_z_km_p_sec) "
                        "select julian_date, ?, pos_x_km + ?, pos_y_km, pos_z_km, vel_x_km_p_sec, vel_y_km_p_sec, vel_z_km_p_sec from truth_ephemerides where agent_id = ?",
                        (aid, 10.0 * (k + 1), TGT[0]))
        for g in c["gaps"]:
            cur.execute("delete from truth_ephemerides where agent_id = ? and abs(julian_date - ?) < 1e-9", (g["agent"], jd_of[g["step"]]))
        if c["missing_agent"]:
            cur.execute("delete from truth_ephemerides where agent_id = ?", (c["missing_agent"],))
        con.commit()
        record = {}
        for aid, jd, *st_ in cur.execute("select agent_id, julian_date, pos_x_km, pos_y_km, pos_z_km, vel_x_km_p_sec, vel_y_km_p_sec, vel_z_km_p_sec from truth_ephemerides").fetchall():
            k = [kk for kk, j in jd_of.items() if abs(j - jd) < 1e-9][0]
            record[(aid, k)] = np.asarray(st_, dtype=np.float64)
        if c.get("colocated"):
            cols = [r[1] for r in cur.execute("pragma table_info(observations)").fetchall() if r[1] != "id"]
            sel = ", ".join("?" if col == "sensor_id" else col for col in cols)
            cur.execute(f"delete from observations where sensor_id = {SEN3}")
            cur.execute(f"insert into observations ({', '.join(cols)}) select {sel} from observations where sensor_id = ?", (SEN3, SEN[0]))
            con.commit()
            rec.label("colocated_sensor_observations_stored")
        obs_rows = {}
        for sid, tid, jd in cur.execute("select sensor_id, target_id, julian_date from observations").fetchall():
            k = [kk for kk, j in jd_of.items() if abs(j - jd) < 1e-9][0]
            obs_rows.setdefault(k, []).append((sid, tid))
        if c.get("absent_table"):
            cur.execute(f"drop table if exists {c['absent_table']}")
            con.commit()
            rec.label("importer_without_table:" + c["absent_table"])
        con.close()
        sha0, dump0 = _sha(imp), _dump(imp)
        # every mix with at least one imported class: targets only, targets + sensors, sensors only
        targets_imported = not (c.get("targets_realtime") and c["sensors_imported"])
        imported_ids = (list(TGT) if targets_imported else []) + ((list(SEN) + ([SEN3] if c.get("colocated") else [])) if c["sensors_imported"] else [])
        rec.label("imported:" + "+".join(n_ for n_, f in (("targets", targets_imported), ("sensors", c["sensors_imported"])) if f))
        # which step is the first with a registered agent lacking a record
        first_missing = None
        for k in range(1, n + 1):
            if any((aid, k) not in record for aid in imported_ids):
                first_missing = k
                break
        has_gap = first_missing is not None
        if (c["extras"] and has_gap) or (c["obs_imported"] and obs_rows):
            rec.nontrivial([n, dt, c["extras"], tuple((g["agent"], g["step"]) for g in c["gaps"]), c["missing_agent"], c["sensors_imported"], c["obs_imported"]])
        rec.label("gap" if has_gap else "complete")
        rec.label(f"extras:{min(c['extras'], 1)}")
        # ---- phase B: the importing scenario ---------------------------------------------------------------
        # "split_only_importing": the producing run had one engine, so stored observations pair sensors and targets that the
        # importing run manages in different engines
        engines_b = split if mode == "split_only_importing" else engines
        # stored observations are used instead of tasking ("imported"), in addition to it ("both": they must still all arrive), or not at all
        obs_mode = "none" if not c["obs_imported"] else ("both" if c.get("obs_both") else "imported")
        rec.label("observations:" + obs_mode)
        rec.label("importing_engines:" + (mode or "one"))
        cfg_b = kit.scenario_config(
            t0, t0 + timedelta(seconds=(n + 1) * dt), dt, engines_b, seq_filter={"alpha": 0.5},
            propagation={"target_realtime_propagation": not targets_imported, "sensor_realtime_propagation": not c["sensors_imported"]},
            observation={"realtime_observation": obs_mode != "imported", "background": True})
        fed = {}
        orig_init = eu.EstUpdateRegistration.__init__
        step = {"k": 0}

        def logged_init(self_, registrant, handle, observations):
            # (observations read from the importer database carry their row id, those made during this run have none yet)
            fed.setdefault(step["k"], {})[registrant.simulation_id] = [(o.sensor_id, o.target_id) for o in observations if obs_mode != "both" or getattr(o, "id", None) is not None]
            return orig_init(self_, registrant, handle, observations)

        eu.EstUpdateRegistration.__init__ = logged_init
        try:
            sc = kit.build(cfg_b, importer_db_path=f"sqlite:///{imp}")
            for k in range(1, n + 1):
                step["k"] = k
                try:
                    sc.stepForward()
                    raised = False
                except MissingEphemerisError:
                    raised = True
                except np.linalg.LinAlgError:
                    from vf.runner import Skip

                    raise Skip("UKF covariance not positive definite in the importing run")
                if first_missing is not None and k == first_missing:
                    if not raised:
                        lacking = [aid for aid in imported_ids if (aid, k) not in record]
                        raise Violation("missing_not_reported", f"step {k}: importer has no record for registered agent(s) {lacking} (and {c['extras']} unrelated extra agent(s)) but the run continued without a missing-ephemeris error")
                    rec.label("missing_reported")
                    break
                if raised:
                    raise Violation("spurious_missing", f"step {k}: MissingEphemerisError although every imported agent has a record")
                for aid in imported_ids:
                    ag = sc.target_agents.get(aid) or sc.sensor_agents.get(aid)
                    got = np.asarray(ag.eci_state, dtype=np.float64)
                    if not np.array_equal(got, record[(aid, k)]):
                        raise Violation("imported_state", f"step {k}: agent {aid} state {got.tolist()} != importer record {record[(aid, k)].tolist()}")
                    if abs(float(ag.time) - k * dt) > 1e-3:
                        raise Violation("imported_time", f"step {k}: imported agent {aid} is at scenario time {float(ag.time)!r}, step epoch is {k * dt}")
                    if aid in SEN or aid == SEN3:
                        # what a sensing agent derives from its state (Earth-fixed position, used for az/el and masks) belongs to the same epoch
                        from resonaate.physics.transforms.methods import eci2ecef

                        want_ecef = eci2ecef(got, t0 + timedelta(seconds=k * dt))
                        off = float(np.linalg.norm(np.asarray(ag.ecef_state, dtype=float)[:3] - want_ecef[:3]))
                        rec.err("imported_sensor_ecef_km", off)
                        if off > 1e-3:
                            raise Violation("imported_sensor_ecef", f"step {k}: imported sensor {aid} exposes an Earth-fixed position {off:.3f} km away from its imported state converted at the step epoch (dt={dt})")
                # the step can be written out: the rows of imported agents refer to the epoch the clock recorded
                try:
                    sc.saveDatabaseOutput()
                except Exception as err:  # noqa: BLE001
                    raise Violation("imported_step_not_storable", f"step {k} (dt={dt}, start {c['start']}, importer Julian dates {c.get('jd_mode', 'as_produced')}): writing the step failed with {type(err).__name__}: {str(err)[:200]}")
                if c["obs_imported"]:
                    want = sorted(p for p in obs_rows.get(k, []) if p[1] in TGT)
                    got = sorted(p for tid, lst in fed.get(k, {}).items() for p in lst)
                    if got != want and c.get("colocated"):
                        # known finding K3 (exactly it, nothing else): of the observations of one target stored for this epoch by the
                        # ground sensor and by the sensor co-located with it, one is dropped as a "duplicate"
                        lost = list(want)
                        for p_ in got:
                            if p_ in lost:
                                lost.remove(p_)
                        partner = {SEN[0]: SEN3, SEN3: SEN[0]}
                        only_k3 = len(lost) + len(got) == len(want) and all(sid in partner and (partner[sid], tid) in got for sid, tid in lost)
                        if only_k3 and rec.excluded("K3-colocated-duplicate"):
                            rec.label("known_K3_colocated_observation_dropped")
                            want = got
                    if got != want:
                        raise Violation("imported_observations", f"step {k}: observations handed to the filters {got} != observations stored in the importer for this epoch {want}")
                    for tid, lst in fed.get(k, {}).items():
                        if any(p[1] != tid for p in lst):
                            raise Violation("observation_misrouted", f"step {k}: filter of target {tid} was given observations {lst}")
                    if want:
                        rec.label("imported_observations_delivered")
        finally:
            eu.EstUpdateRegistration.__init__ = orig_init
        kit.fresh_db()
        if _sha(imp) != sha0 or _dump(imp) != dump0:
            # known finding K4 (exactly it): the only change is that the absent table now exists, empty
            only_k4 = False
            if c.get("absent_table"):
                con2 = sqlite3.connect(imp)
                try:
                    empty = con2.execute(f"select count(*) from {c['absent_table']}").fetchone()[0] == 0
                    con2.execute(f"drop table {c['absent_table']}")
                    for (ix,) in con2.execute("select name from sqlite_master where type = 'index' and tbl_name = ?", (c["absent_table"],)).fetchall():
                        con2.execute(f"drop index if exists {ix}")
                    restored = "\n".join(con2.iterdump())
                    only_k4 = empty and hashlib.sha256(restored.encode()).hexdigest() == dump0
                except sqlite3.Error:
                    only_k4 = False
                finally:
                    con2.rollback()
                    con2.close()
            if not (only_k4 and rec.excluded("K4-importer-tables-created")):
                raise Violation("importer_modified", "the importer database file changed during the run" + (f" (beyond the creation of the absent table {c['absent_table']})" if c.get("absent_table") else ""))
            rec.label("known_K4_absent_table_created")
        # the importer interface refuses writes
        from resonaate.data.importer_database import ImporterDatabase

        idb = ImporterDatabase(f"sqlite:///{imp}")
        for name, call in (("insertData", lambda: idb.insertData(object())), ("bulkSave", lambda: idb.bulkSave([])), ("deleteData", lambda: idb.deleteData(None))):
            try:
                call()
            except NotImplementedError:
                continue
            except Exception:  # noqa: BLE001
                pass
            raise Violation("importer_writable", f"ImporterDatabase.{name} did not refuse to write")
        idb.engine.dispose()
    finally:
        shutil.rmtree(tmp, ignore_errors=True)
