"""C15 - finite burns thrust for exactly their configured interval."""

from __future__ import annotations

import math
from datetime import timedelta

import numpy as np
from hypothesis import strategies as st

from vf import scenario_kit as kit  # installs the Ray double before resonaate is imported
from vf.oracles import kepler
from vf.runner import Prop, Violation
from vf.strategies.instants import eop_instants, iso, parse

PROP = Prop(
    "C15",
    rule=(
        "Hypothesis: step size, number of steps and a burn interval placed relative to the step grid (inside one step, spanning "
        "several, starting and/or ending exactly on a boundary, incl. offsets of 675 s that are exact in Julian-date arithmetic; whole-second configuration times; in a third of the cases a second thrust interval of the same target follows; orbit radius 7000..42164 km), both thrust frames of "
        "finite_burn (ECI, NTW) and both finite_maneuver types (spiral, plane change), accelerations 1e-7..1e-5 km/s^2, two-body "
        "and perturbed truth; the real Scenario is run (truth only) on the in-process Ray double with the event in the "
        "configuration, so the Julian-date conversion of the burn times is included. Non-trivial = end time not on the step grid, "
        "or burn spanning >= 2 steps; distinct by (dt, start, end, kind, model)."
    ),
    assumptions=[
        "reference trajectory: harness-owned DOP853 integration (rtol 1e-12) of natural acceleration + thrust * [t_s <= t <= t_e], "
        "split exactly at t_s and t_e; natural acceleration is -mu r/r^3 (two-body) or a fresh SpecialPerturbations derivative with "
        "no event attached (force-model fidelity is C13's subject); thrust direction recomputed by the harness",
        "tolerance 2e-6 km / 2e-9 km/s per step boundary (calibrated); one over-burnt 10 s at 1e-7 km/s^2 is 1e-6 km/s",
    ],
)
PROP.selftest(kepler.selftest)

TID, SID = 12001, 22001
POS_TOL, VEL_TOL = 2e-6, 2e-9


@st.composite
def _cases(draw):
    t0 = draw(eop_instants(margin_days=3))
    dt = draw(st.sampled_from([10, 30, 60, 120, 300, 45, 75, 135, 225, 675]))
    n = draw(st.integers(4, 8))
    mode = draw(st.sampled_from(["inside", "span", "start_on", "end_on", "both_on", "free", "free"]))
    if 675 % dt == 0:
        # offsets that are multiples of 675 s (= 86400/128) survive the Julian-date round trip exactly, so only there does a
        # configured time coincide *exactly* with a step boundary; make sure such a boundary lies inside the run
        n = max(n, 675 // dt + 1)
        n = min(n, 16)
        mode = draw(st.sampled_from(["end_exact", "start_exact", "end_exact", mode])) if 675 // dt < n else mode
    if mode == "inside":
        k = draw(st.integers(0, n - 2))
        a = k * dt + draw(st.integers(1, dt - 2))
        b = draw(st.integers(a + 1, (k + 1) * dt - 1))
    elif mode == "span":
        k = draw(st.integers(0, n - 3))
        a = k * dt + draw(st.integers(1, dt - 1))
        b = (k + draw(st.integers(1, n - 2 - k))) * dt + draw(st.integers(1, dt - 1))
    elif mode == "start_on":
        k = draw(st.integers(1, n - 2))
        a = k * dt
        b = a + draw(st.integers(1, (n - 1 - k) * dt - 1))
        if b % dt == 0:
            b += 1
    elif mode == "end_on":
        k = draw(st.integers(1, n - 1))
        b = k * dt
        a = draw(st.integers(max(1, b - 3 * dt), b - 1))
        if a % dt == 0:
            a += 1 if a + 1 < b else 0
    elif mode == "end_exact":
        b = 675
        a = b - draw(st.integers(1, min(674, 3 * dt)))
    elif mode == "start_exact":
        a = 675
        b = a + draw(st.integers(1, (n - 675 // dt) * dt - 1))
    elif mode == "both_on":
        k = draw(st.integers(1, n - 2))
        a = k * dt
        b = (k + draw(st.integers(1, n - 1 - k))) * dt
    else:
        a = draw(st.integers(1, (n - 1) * dt - 2))
        b = draw(st.integers(a + 1, (n - 1) * dt))
    kind = draw(st.sampled_from(["burn_eci", "burn_ntw", "spiral", "plane_change"]))
    mag = draw(st.sampled_from([1e-7, 1e-6, 1e-5]))
    d = draw(st.sampled_from([(1, 0, 0), (0, 1, 0), (0, 0, 1), (1, 1, 1), (-1, 0.5, 0)]))
    model = draw(st.sampled_from(["two_body", "two_body", "special_perturbations"]))
    second = None
    if draw(st.sampled_from([False, False, True])) and b + 2 <= n * dt - 1:
        # a second thrust interval of the same target, after the first one (possibly queued while the first is still on)
        a2 = draw(st.one_of(st.just(b), st.integers(b, min(n * dt - 2, b + 2 * dt))))  # incl. starting when the first ends
        b2 = draw(st.integers(a2 + 1, min(n * dt - 1, a2 + 3 * dt)))
        second = {"ts": a2, "te": b2, "kind": draw(st.sampled_from(["burn_eci", "burn_ntw", "spiral", "plane_change"])),
                  "mag": draw(st.sampled_from([1e-7, 1e-6, 1e-5])), "dir": list(draw(st.sampled_from([(1, 0, 0), (0, 1, 0), (0, 0, 1)])))}
    # orbit radius matters: the higher the orbit, the longer the integrator's internal steps (a whole scenario step at GEO)
    r = draw(st.sampled_from([7000.0, 9000.0, 9500.0, 26560.0, 42164.0, 42164.0]))
    return {"start": iso(t0), "dt": dt, "n": n, "r": r, "ts": a, "te": b, "kind": kind, "mag": mag, "dir": list(d), "model": model, "mode": mode, "second": second,
            "integrator": draw(st.sampled_from(["RK45", "DOP853"]))}


def _burns(c):
    first = {k: c[k] for k in ("ts", "te", "kind", "mag", "dir")}
    return [first] + ([c["second"]] if c.get("second") else [])


def _thrust(case, state):
    """Acceleration vector (ECI) the configured burn applies at ``state``."""
    mag, kind = case["mag"], case["kind"]
    if kind == "burn_eci":
        d = np.array(case["dir"], dtype=float)
        return mag * d
    basis = kepler.ntw_basis(state)
    if kind == "burn_ntw":
        return basis @ (mag * np.array(case["dir"], dtype=float))
    if kind == "spiral":
        return basis @ np.array([0.0, mag, 0.0])
    sign = 1.0 if state[2] >= 0 else -1.0
    return basis @ np.array([0.0, 0.0, sign * mag])


def _reference(case, x0, natural):
    """States at every step boundary from a split integration with thrust on exactly inside [ts, te]."""
    from scipy.integrate import solve_ivp

    dt, n = case["dt"], case["n"]
    burns = _burns(case)
    marks = sorted({k * dt for k in range(n + 1)} | {b["ts"] for b in burns} | {b["te"] for b in burns})
    out = {0: np.array(x0, dtype=float)}
    x = np.array(x0, dtype=float)
    flips = case.setdefault("_flips", [])
    del flips[:]
    for a, b in zip(marks[:-1], marks[1:]):
        on = [bb for bb in burns if bb["ts"] <= a and b <= bb["te"]]

        def f(t, y, _on=on):
            acc = natural(t, y)
            for bb in _on:
                acc = acc + _thrust(bb, y)
            return np.concatenate([y[3:], acc])

        sol = solve_ivp(f, (float(a), float(b)), x, method="DOP853", rtol=1e-12, atol=1e-14)
        for bb in on:
            # the plane-change thrust reverses when the satellite crosses the equatorial plane: a discontinuous right-hand side
            if bb["kind"] == "plane_change" and (sol.y[2].min() < 0.0 <= sol.y[2].max()):
                flips.append((float(b), bb["mag"]))
        x = sol.y[:, -1]
        if b % dt == 0:
            out[b // dt] = x.copy()
    return out


@PROP.clause("scenario_burn", strategy=_cases, quick=240, thorough=6000, shards=16)
def scenario_burn(c, rec):
    """truth trajectory with a finite burn/maneuver equals an independent integration with thrust only inside [t_start, t_end], at every step boundary"""
    from resonaate.physics.time.stardate import datetimeToJulianDate

    t0 = parse(c["start"])
    dt, n, ts, te = c["dt"], c["n"], c["ts"], c["te"]
    x0 = kit.circular_state_over(10.0, 20.0, t0, c.get("r", 9000.0 if c["model"] == "two_body" else 9500.0), heading_deg=50.0)
    when = lambda s: (t0 + timedelta(seconds=s)).strftime("%Y-%m-%dT%H:%M:%S.000Z")  # noqa: E731
    evs = []
    for bb in _burns(c):
        ev = {"scope": "agent_propagation", "scope_instance_id": TID, "start_time": when(bb["ts"]), "end_time": when(bb["te"]), "planned": False}
        if bb["kind"].startswith("burn"):
            ev.update(event_type="finite_burn", acc_vector=[bb["mag"] * x for x in bb["dir"]], thrust_frame="eci" if bb["kind"] == "burn_eci" else "ntw")
        else:
            ev.update(event_type="finite_maneuver", maneuver_mag=bb["mag"], maneuver_type=bb["kind"])
        evs.append(ev)
    cfg = kit.scenario_config(t0, t0 + timedelta(seconds=(n + 1) * dt), dt, [kit.engine(1, [kit.ground_sensor(SID, 10.0, 20.0)], [kit.eci_target(TID, x0)])],
                              truth_only=True, model=c["model"], integrator=c["integrator"], events=evs,
                              geopotential={"model": "egm96.txt", "degree": 2, "order": 0})
    spans = (te - 1) // dt - ts // dt + 1 if te > ts else 1
    if te % dt != 0 or spans >= 2:
        rec.nontrivial([dt, ts, te, c["kind"], c["model"], c["mag"]])
    rec.label("mode:" + c["mode"])
    rec.label(c["kind"])
    rec.label(c["model"])
    rec.label("radius:%d" % c.get("r", 9000))
    rec.label(("two_intervals_touching" if c["second"]["ts"] == te else "two_intervals") if c.get("second") else "one_interval")
    sc = kit.build(cfg)
    tgt = sc.target_agents[TID]
    if c["model"] == "two_body":
        def natural(t, y):
            return -kepler.MU * y[:3] / np.linalg.norm(y[:3]) ** 3
    else:
        from resonaate.dynamics.special_perturbations import SpecialPerturbations
        from resonaate.scenario.config.geopotential_config import GeopotentialConfig
        from resonaate.scenario.config.perturbations_config import PerturbationsConfig

        clean = SpecialPerturbations(datetimeToJulianDate(t0), GeopotentialConfig(model="egm96.txt", degree=2, order=0), PerturbationsConfig(), 0.0)

        def natural(t, y):
            return clean._differentialEquation(t, np.asarray(y, dtype=float), check_collision=False)[3:]
    ref = _reference(c, x0, natural)
    for k in range(1, n + 1):
        sc.stepForward()
        got = np.asarray(tgt.eci_state, dtype=float)
        dp = float(np.linalg.norm(got[:3] - ref[k][:3]))
        dv = float(np.linalg.norm(got[3:] - ref[k][3:]))
        rec.err("pos_km", dp)
        rec.err("vel_kms", dv)
        # integrator error of the truth propagation (RK45/DOP853, rtol 1e-10) grows with elapsed time: observed 2.4e-6 km /
        # 2.2e-9 km/s after 2400 s; allowance 5e-5 km / 2e-8 km/s per hour on top of the base tolerance.  The smallest
        # generated mis-timing (1 s at 1e-7 km/s^2) is 1e-7 km/s and grows 1e-7 km per second afterwards.
        hours = k * dt / 3600.0
        # a thrust reversal (plane change crossing the equator) inside the burn is located by the adaptive integrators only to a
        # fraction of a second (observed 0.15 s with RK45): allow 2 * mag * 0.5 s of velocity for every reversal so far
        flip_dv = sum(2.0 * m * 0.5 for (tb, m) in c.get("_flips", []) if tb <= k * dt + dt)
        if flip_dv:
            rec.label("thrust_reversal_inside_burn")
        if dp > POS_TOL + 5e-5 * hours + flip_dv * k * dt or dv > VEL_TOL + 2e-8 * hours + flip_dv:
            burn_s = te - ts
            raise Violation(
                "burn_interval",
                f"after step {k} (epoch {k * dt}s) the truth state differs from the reference with thrust only in [{ts},{te}]s{' and [%d,%d]s (%s)' % (c['second']['ts'], c['second']['te'], c['second']['kind']) if c.get('second') else ''} by {dp:.3e} km, "
                f"{dv:.3e} km/s (step {dt}s, {c['kind']} {c['mag']!r} km/s^2, {c['model']}/{c['integrator']}; a*(te-ts) = {c['mag'] * burn_s:.3e} km/s)")


# ------------------------------------------------------------------------------------------------
@PROP.clause("touching_api", quick=3000, thorough=30000, shards=16)
def touching_api(c, rec):
    """Celestial.propagate with two burns of equal thrust that touch at T equals the same call with the single merged burn (T on a fine grid: the root finder lands on T only to an ulp)"""
    from functools import partial

    from resonaate.dynamics.integration_events.finite_thrust import ScheduledFiniteBurn, eciBurn
    from resonaate.dynamics.two_body import TwoBody
    from resonaate.physics.time.stardate import ScenarioTime

    t_touch = c["T"]
    x0 = kepler.coe2rv(7000.0 + 35000.0 * c["high"], 0.001, 0.9, 1.0, 0.5, 0.3)

    def burn(a, b):
        return ScheduledFiniteBurn(ScenarioTime(a), ScenarioTime(b), partial(eciBurn, acc_vector=np.array([0.0, 1e-3, 0.0])), 1)

    two = TwoBody(method=c["method"]).propagate(0.0, 60.0, x0.copy(), scheduled_events=[burn(2.0, t_touch), burn(t_touch, t_touch + 5.0)])
    one = TwoBody(method=c["method"]).propagate(0.0, 60.0, x0.copy(), scheduled_events=[burn(2.0, t_touch + 5.0)])
    rec.nontrivial([t_touch, c["method"], c["high"]])
    dv = float(np.linalg.norm(np.asarray(two)[3:] - np.asarray(one)[3:]))
    rec.err("touching_dv_kms", dv)
    if dv > 1e-8:
        raise Violation("touching_burns", f"two burns [2, {t_touch!r}] s and [{t_touch!r}, {t_touch + 5.0!r}] s deliver {dv:.3e} km/s less/more than the single burn [2, {t_touch + 5.0!r}] s ({c['method']})")


@PROP.sweep("touching_api")
def touching_api_cases(ctx):
    n_total = ctx["n"] * ctx["nshards"]
    step = 30.0 / 3000 if n_total <= 3000 else 90.0 / n_total
    for k in range(n_total):
        if k % ctx["nshards"] != ctx["shard"]:
            continue
        yield {"T": round(8.0 + step * k, 6), "method": ("RK45", "DOP853")[k % 2], "high": (k // 2) % 2}
