"""C13 - high-fidelity force model equals an independent reference at every state/epoch."""

from __future__ import annotations

import math
from datetime import timedelta

import numpy as np
from hypothesis import strategies as st

from vf.oracles import ephem_lowprec, kepler, legendre
from vf.runner import Prop, Violation
from vf.strategies.instants import boundary_kind, eop_instants, iso, parse

PI = math.pi
RE = 6378.1363

PROP = Prop(
    "C13",
    rule=(
        "Hypothesis: states from 200 km altitude to 10 Re (any direction, speeds up to 11 km/s), epochs over the EOP table incl. "
        "second != 0 and fractional elapsed seconds, each of the four geopotential files, degree 0..20 with order <= degree, every "
        "subset of {sun, moon, jupiter, saturn, venus}, SRP / GR on and off, batch layouts K in 1..5 with the state under test at a "
        "drawn column; Sun directions additionally constructed in the penumbra for SRP. Each term is isolated as the difference of "
        "two derivative calls and compared with its own reference. Non-trivial = degree >= 3 with order >= 1, or >= 2 third bodies, "
        "or SRP in penumbra, or K >= 2; distinct by rounded inputs. Ephemeris clause: every Chebyshev sub-interval boundary of the "
        "Sun/Moon/Earth segments inside the EOP span plus drawn instants."
    ),
    assumptions=[
        "geopotential reference = gradient (4th-order central differences, h = 0.5 km) of the spherical-harmonic potential built from "
        "fully normalised Legendre functions and the coefficients read directly from the data file; relative tolerance 2e-7 of the "
        "perturbation magnitude (oracle self-test: J2 closed form to 1e-9)",
        "Earth-fixed rotation taken from the public eci2ecef at the exact epoch (its correctness is C04's subject)",
        "body positions and mu are data (DE432s Chebyshev files, constants): their *use* is checked, plus continuity and agreement "
        "with low-precision analytic series (0.02 deg / 1% Sun, 0.5 deg / 2% Moon)",
    ],
)
PROP.selftest(legendre.selftest)
PROP.selftest(kepler.selftest)

MODELS = ["egm96.txt", "egm2008.txt", "GGM03S.txt", "jgm3.txt"]
BODIES = ["sun", "moon", "jupiter", "saturn", "venus"]


def _dirs():
    return st.tuples(st.floats(-PI / 2, PI / 2), st.floats(-PI, PI)).map(
        lambda t: [math.cos(t[0]) * math.cos(t[1]), math.cos(t[0]) * math.sin(t[1]), math.sin(t[0])])


def _cases():
    def mk(t, frac, d, r, vd, vmag, model, deg, ofrac, bodies, srp, gr, k, col, pen_u, use_pen):
        return {"t": iso(t), "elapsed": frac, "d": d, "r": r, "vd": vd, "v": vmag, "model": model, "deg": deg, "ord": int(round(ofrac * deg)),
                "bodies": sorted(set(bodies)), "srp": srp, "gr": gr, "K": k, "col": col % k, "pen_u": pen_u, "use_pen": use_pen}

    return st.builds(
        mk, eop_instants(margin_days=3), st.one_of(st.sampled_from([0.0, 60.0, 3600.0]), st.floats(0.0, 86400.0)),
        _dirs(), st.one_of(st.floats(RE + 200, 10 * RE), st.sampled_from([RE + 200.0, 7000.0, 26560.0, 42164.0])),
        _dirs(), st.floats(0.5, 11.0), st.sampled_from(MODELS), st.sampled_from([0, 2, 3, 4, 8, 12, 20]), st.floats(0, 1),
        st.lists(st.sampled_from(BODIES), max_size=5), st.booleans(), st.booleans(), st.sampled_from([1, 1, 2, 3, 5]),
        st.integers(0, 4), st.floats(-1.5, 1.5), st.booleans())


_CFG_OBJECTS: dict = {}


def _dyn(jd0, model, deg, order, bodies, srp, gr, ratio=0.03):
    """Dynamics built the way the scenario builds them: ONE geopotential / perturbations configuration object is handed to every
    dynamics model that shares the settings (truth and filter dynamics of every agent), so the objects are reused across builds
    within a case (a second model built from the same objects must contain the same terms)."""
    from resonaate.dynamics.special_perturbations import SpecialPerturbations
    from resonaate.scenario.config.geopotential_config import GeopotentialConfig
    from resonaate.scenario.config.perturbations_config import PerturbationsConfig

    key = (model, deg, order, tuple(bodies), srp, gr)
    if key not in _CFG_OBJECTS:
        _CFG_OBJECTS[key] = (GeopotentialConfig(model=model, degree=deg, order=order),
                             PerturbationsConfig(third_bodies=list(bodies), solar_radiation_pressure=srp, general_relativity=gr))
    gcfg, pcfg = _CFG_OBJECTS[key]
    return SpecialPerturbations(jd0, gcfg, pcfg, ratio)


def _acc(dyn, t, x):
    out = dyn._differentialEquation(t, np.asarray(x, dtype=float).copy(), check_collision=False)
    return np.asarray(out, dtype=float)


def _overlap_fraction(a, b, c):
    if c >= a + b:
        return 1.0
    if c <= abs(b - a):
        return 0.0 if b >= a else 1.0 - (b / a) ** 2
    ca = (c * c + a * a - b * b) / (2 * c * a)
    cb = (c * c + b * b - a * a) / (2 * c * b)
    al, be = math.acos(max(-1, min(1, ca))), math.acos(max(-1, min(1, cb)))
    lens = a * a * (al - math.sin(al) * math.cos(al)) + b * b * (be - math.sin(be) * math.cos(be))
    return 1.0 - lens / (PI * a * a)


def _rel(label, got, ref, rec, rel_tol, floor, what):
    """|got - ref| <= rel_tol*|ref| + floor, where floor is the rounding level of the *total* acceleration the term is
    extracted from (terms are isolated as differences of two derivative calls)."""
    err = float(np.linalg.norm(got - ref))
    mag = float(np.linalg.norm(ref))
    rec.err(label + "_excess", max(0.0, err - floor) / max(mag, 1e-300))
    if err > rel_tol * mag + floor:
        raise Violation(label, f"{what}: code {got.tolist()} vs reference {ref.tolist()} (|diff| = {err:.3e}, |ref| = {mag:.3e} km/s^2)")


@PROP.clause("acceleration", strategy=_cases, quick=700, thorough=30000, shards=16)
def acceleration(c, rec):
    """each term of the perturbed acceleration (point mass, geopotential, third bodies, SRP, GR) equals its independent reference and is present exactly when configured"""
    from resonaate.physics import constants as const
    from resonaate.physics.bodies import Earth
    from resonaate.physics.bodies.third_body import Jupiter, Moon, Saturn, Sun, Venus
    from resonaate.physics.time.stardate import JulianDate, datetimeToJulianDate
    from resonaate.physics.transforms.methods import eci2ecef

    t0 = parse(c["t"])
    jd0 = datetimeToJulianDate(t0)
    el = c["elapsed"]
    when = t0 + timedelta(seconds=el)
    jd = JulianDate(float(jd0) + el / 86400)
    r = np.array(c["d"]) * c["r"]
    v = np.array(c["vd"]) * c["v"]
    deg, order = c["deg"], c["ord"]
    bodies, k, col = c["bodies"], c["K"], c["col"]
    body_cls = {"sun": Sun, "moon": Moon, "jupiter": Jupiter, "saturn": Saturn, "venus": Venus}
    # optionally move the satellite into the penumbra for this epoch (keeps |r|, changes direction)
    sun_pos = np.asarray(Sun.getPosition(jd), dtype=float)
    in_pen = False
    if c["use_pen"] and c["srp"]:
        b = math.asin(RE / c["r"])
        a = math.asin(Sun.radius / np.linalg.norm(sun_pos))
        sep = b + a * c["pen_u"]
        anti = -sun_pos / np.linalg.norm(sun_pos)
        q = np.cross(anti, [0.0, 0.0, 1.0])
        q /= np.linalg.norm(q)
        r = c["r"] * (math.cos(sep) * anti + math.sin(sep) * q)
        in_pen = abs(c["pen_u"]) < 1.0
    if (deg >= 3 and order >= 1) or len(bodies) >= 2 or in_pen or k >= 2:
        rec.nontrivial([c["t"], round(el, 0), round(c["r"], -2), c["model"], deg, order, tuple(bodies), c["srp"], c["gr"], k, col, in_pen])
    if boundary_kind(when):
        rec.label("epoch_near_boundary")
    if t0.second or el != int(el):
        rec.label("second_or_fraction_nonzero")
    x = np.concatenate([r, v])
    _CFG_OBJECTS.clear()  # configuration objects are shared within a case, never between cases

    def batch_of(xx):
        cols = [xx + np.array([7.0 * j, -3.0 * j, 2.0 * j, 1e-2 * j, -2e-2 * j, 1e-2 * j]) for j in range(k)]
        cols[col] = xx
        return np.column_stack(cols).ravel()

    def pert(dyn):
        """Perturbing acceleration of the state under test (total minus point mass), taken from a K-column batch."""
        out = _acc(dyn, el, batch_of(x)).reshape(6, k)[:, col]
        if not np.array_equal(out[:3], v):
            raise Violation("velocity_rows", f"derivative of position is not the velocity for column {col} of {k}")
        return out[3:] + Earth.mu * r / np.linalg.norm(r) ** 3

    base = pert(_dyn(jd0, c["model"], deg, order, [], False, False))
    floor = 20 * np.finfo(float).eps * Earth.mu / np.linalg.norm(r) ** 2  # rounding level of the total acceleration
    # --- geopotential ------------------------------------------------------------------------------
    q_mat = np.column_stack([eci2ecef(np.eye(6)[i], when)[:3] for i in range(3)])  # ECEF <- ECI at the exact epoch
    if deg >= 2:
        cbar, sbar = legendre.load_normalised(legendre.data_file(c["model"]))
        g = legendre.gradient(q_mat @ r, Earth.mu, Earth.radius, cbar, sbar, deg, order)
        ref = q_mat.T @ g
        _rel("geopotential", base, ref, rec, 2e-7, floor, f"non-spherical gravity ({c['model']}, degree {deg}, order {order}) at |r|={c['r']!r}, {c['t']}+{el!r}s")
    elif float(np.linalg.norm(base)) > floor:
        raise Violation("geopotential_present", f"degree {deg} configured but a non-spherical term of {np.linalg.norm(base):.3e} km/s^2 is present")
    # --- third bodies ------------------------------------------------------------------------------
    if bodies:
        got = pert(_dyn(jd0, c["model"], deg, order, bodies, False, False)) - base
        ref = np.zeros(3)
        for name in bodies:
            cls = body_cls[name]
            s = np.asarray(cls.getPosition(jd), dtype=np.longdouble)
            rr = r.astype(np.longdouble)
            d = s - rr
            ref = ref + np.asarray(cls.mu * (d / np.linalg.norm(d) ** 3 - s / np.linalg.norm(s) ** 3), dtype=float)
        _rel("third_body", got, ref, rec, 1e-7, floor, f"third-body attraction of {bodies} at {c['t']}+{el!r}s")
        again = pert(_dyn(jd0, c["model"], deg, order, bodies, False, False)) - base
        if not np.array_equal(again, got):
            raise Violation("third_body_second_model", f"a second dynamics model built from the same configuration objects gives third-body attraction {again.tolist()}, the first one {got.tolist()} ({bodies})")
    # --- solar radiation pressure --------------------------------------------------------------------
    if c["srp"]:
        ratio = 0.03
        for bset in ([], ["sun"]) if "sun" in bodies or not bodies else ([],):
            got = pert(_dyn(jd0, c["model"], deg, order, bset, True, False, ratio)) - pert(_dyn(jd0, c["model"], deg, order, bset, False, False, ratio))
            d = sun_pos - r
            dn = float(np.linalg.norm(d))
            a_s = math.asin(Sun.radius / dn)
            b_e = math.asin(Earth.radius / np.linalg.norm(r))
            sep = math.atan2(np.linalg.norm(np.cross(-r, d)), float(np.dot(-r, d)))
            frac = 1.0 if np.linalg.norm(sun_pos) >= dn else _overlap_fraction(a_s, b_e, sep)
            ref = -const.SOLAR_PRESSURE * ratio * (const.AU2KM / dn) ** 2 * d / dn * frac / 1000.0
            if in_pen:
                rec.label("srp_penumbra")
            # visible-fraction formula loses precision at first/last contact (C14): absolute slack 5e-4 of the full pressure
            full = const.SOLAR_PRESSURE * ratio * (const.AU2KM / dn) ** 2 / 1000.0
            err = float(np.linalg.norm(got - ref))
            rec.err("srp_rel_full", err / full)
            if err > 5e-4 * full:
                raise Violation("srp", f"solar radiation pressure {got.tolist()} vs cannonball reference {ref.tolist()} (visible fraction {frac!r}, third bodies {bset})")
    else:
        pass
    # --- general relativity --------------------------------------------------------------------------
    if c["gr"]:
        got = pert(_dyn(jd0, c["model"], deg, order, [], False, True)) - base
        c2 = (const.SPEED_OF_LIGHT / 1000.0) ** 2
        rn = float(np.linalg.norm(r))
        ref = Earth.mu / (c2 * rn**3) * ((4 * Earth.mu / rn - float(v.dot(v))) * r + 4 * float(r.dot(v)) * v)
        _rel("relativity", got, ref, rec, 1e-7, floor, "relativistic (Schwarzschild) correction")
    # --- everything configured together equals the sum, every batch column independent -----------------
    if bodies or c["srp"] or c["gr"]:
        all_on = pert(_dyn(jd0, c["model"], deg, order, bodies, c["srp"], c["gr"]))
        parts = base.copy()
        if bodies:
            parts = parts + (pert(_dyn(jd0, c["model"], deg, order, bodies, False, False)) - base)
        if c["srp"]:
            parts = parts + (pert(_dyn(jd0, c["model"], deg, order, bodies, True, False)) - pert(_dyn(jd0, c["model"], deg, order, bodies, False, False)))
        if c["gr"]:
            parts = parts + (pert(_dyn(jd0, c["model"], deg, order, [], False, True)) - base)
        if float(np.linalg.norm(all_on - parts)) > 1e-9 * float(np.linalg.norm(all_on)) + 4 * floor:
            raise Violation("superposition", f"acceleration with everything configured is not the sum of the separately configured terms: {all_on.tolist()} vs {parts.tolist()}")


# ------------------------------------------------------------------------------------------------
def _ephem_cases():
    return st.builds(lambda t, body, frac: {"t": iso(t), "body": body, "frac": frac}, eop_instants(), st.sampled_from(["sun", "moon"]),
                     st.floats(0, 1))


@PROP.clause("ephemeris", strategy=_ephem_cases, quick=1500, thorough=40000, shards=2)
def ephemeris(c, rec):
    """Sun/Moon positions: agree with low-precision analytic series, continuous across Chebyshev sub-interval boundaries, array == scalar evaluation"""
    from resonaate.physics.bodies.third_body import THIRD_BODY_EPHEMS, TBK, Moon, Sun
    from resonaate.physics.time.stardate import JulianDate, datetimeToJulianDate

    t = parse(c["t"])
    jd = float(datetimeToJulianDate(t))
    cls, ref_f, ang_tol, rng_tol, vmax = (Sun, ephem_lowprec.sun, 0.02, 0.01, 31.0) if c["body"] == "sun" else (Moon, ephem_lowprec.moon, 0.5, 0.02, 1.2)
    p = np.asarray(cls.getPosition(JulianDate(jd)), dtype=float)
    q = ref_f(jd)
    ang = math.degrees(math.atan2(np.linalg.norm(np.cross(p, q)), float(p.dot(q))))
    rr = abs(np.linalg.norm(p) / np.linalg.norm(q) - 1)
    rec.err(c["body"] + "_angle_deg", ang)
    rec.err(c["body"] + "_range_rel", rr)
    if ang > ang_tol or rr > rng_tol:
        raise Violation("ephemeris_value", f"{c['body']} position at JD {jd!r} is {ang:.4f} deg / {rr:.4%} in range away from the low-precision analytic ephemeris")
    # nearest sub-interval boundary of the segments involved, straddled by +-0.5 s
    segs = [TBK.SS_BC_2_SUN_CENTER, TBK.SS_BC_2_EARTH_BC, TBK.EARTH_BC_2_EARTH_CENTER] if c["body"] == "sun" else [TBK.EARTH_BC_2_MOON_CENTER, TBK.EARTH_BC_2_EARTH_CENTER]
    seg = segs[int(c["frac"] * len(segs)) % len(segs)]
    init, interval, _coef = THIRD_BODY_EPHEMS[seg.value]
    kb = round((jd - init) / interval)
    bjd = init + kb * interval
    rec.nontrivial([c["body"], seg.name, kb])
    for delta in (0.5, 1e-3):
        a = np.asarray(cls.getPosition(JulianDate(bjd - delta / 86400)), dtype=float)
        b = np.asarray(cls.getPosition(JulianDate(bjd + delta / 86400)), dtype=float)
        step = float(np.linalg.norm(b - a))
        if step > 1.1 * vmax * 2 * delta + 1e-3:
            raise Violation("ephemeris_jump", f"{c['body']} position jumps by {step:.3f} km across the {seg.name} sub-interval boundary at JD {bjd!r} (+-{delta}s)")
    # array input gives the same as scalar input
    arr = np.asarray(cls.getPosition(np.array([jd, bjd - 1e-5, bjd + 1e-5])), dtype=float)
    for row, j in zip(arr, (jd, bjd - 1e-5, bjd + 1e-5)):
        s = np.asarray(cls.getPosition(JulianDate(j)), dtype=float)
        if float(np.linalg.norm(row - s)) > 1e-6:
            raise Violation("ephemeris_array", f"{c['body']}: array evaluation differs from scalar evaluation by {np.linalg.norm(row - s):.3e} km at JD {j!r}")
