"""C04 - reference-frame conversions are exact inverses, rigid, and continuous in time."""

from __future__ import annotations

import math
from datetime import date, datetime, timedelta

import numpy as np
from hypothesis import strategies as st

from vf.oracles import geodesy
from vf.runner import Prop, Violation
from vf.strategies.instants import LEAP_SECOND_DATES, boundary_kind, eop_instants, eop_span, iso, parse

PI, TWOPI = math.pi, 2 * math.pi
RE = 6378.1363
GEO_TOL = 1e-3  # km, inverse geodetic conversion (see the calibration note in `geodetic`)
DIR_TOL = 1e-6  # rad, topocentric directions through the full chain (site latitude comes from ecef2lla: ~1e-8 rad)

PROP = Prop(
    "C04",
    rule=(
        "Hypothesis: UTC instants over the bundled EOP table (weighted to second!=0, :59, minute/day/month/leap-day/year "
        "boundaries, microseconds), positions |r| in [Re,10Re] incl. poles/equator/antimeridian/axis points, velocities "
        "<= 12 km/s, sites incl. poles; continuity clause additionally sweeps day boundaries drawn from the whole table. "
        "Non-trivial = instant within 60 s of a calendar boundary, or direction within 1e-3 rad of a pole/antimeridian/zenith/"
        "azimuth seam; distinct by (date, boundary kind) or rounded geometry."
    ),
    assumptions=[
        "EOP table values (dUT1, LOD, polar motion) are data, not code under test",
        "tolerances: round trips 1e-9 km / 1e-12 km/s relative scale, continuity 1e-6 rad (daily EOP steps are <= 1e-7 rad)",
    ],
)


def _pure(*names):
    """The named conversion functions, wrapped so that every call also checks that no array argument was modified in place
    (a conversion that mutates its input breaks the inverse pair for any caller that keeps using the array)."""
    from resonaate.physics.transforms import methods

    def wrap(fn, name):
        def call(*args, **kw):
            before = [np.array(a, copy=True) if isinstance(a, np.ndarray) else None for a in args]
            out = fn(*args, **kw)
            for i, (b, a) in enumerate(zip(before, args)):
                if b is not None and not np.array_equal(b, a, equal_nan=True):
                    raise Violation("input_mutated", f"{name} modified its argument {i} in place: {b.tolist()} -> {np.asarray(a).tolist()}")
            return out

        return call

    return [wrap(getattr(methods, n), n) for n in names]
PROP.selftest(geodesy.selftest)


def _earth():
    from resonaate.physics.bodies import Earth

    return Earth.radius, Earth.eccentricity**2, Earth.spin_rate


# ---------------------------------------------------------------------------- strategies
def _unit_dirs():
    """Directions incl. poles, equator, antimeridian and exact axes."""
    special = [(1, 0, 0), (-1, 0, 0), (0, 1, 0), (0, -1, 0), (0, 0, 1), (0, 0, -1), (-1, 1e-12, 0), (-1, -1e-12, 0),
               (1e-9, 0, 1), (0, 1e-9, -1), (1, 1, 0), (1, 0, 1e-9)]
    gen = st.tuples(st.floats(-PI / 2, PI / 2), st.floats(-PI, PI)).map(
        lambda t: (math.cos(t[0]) * math.cos(t[1]), math.cos(t[0]) * math.sin(t[1]), math.sin(t[0])))
    return st.one_of(gen, st.sampled_from(special)).map(lambda v: list(np.array(v, dtype=float) / np.linalg.norm(v)))


def _positions():
    return st.tuples(_unit_dirs(), st.one_of(st.floats(RE, 10 * RE), st.sampled_from([RE, RE + 0.001, 6778.0, 42164.0, 10 * RE]))).map(
        lambda t: [x * t[1] for x in t[0]])


def _velocities():
    return st.tuples(_unit_dirs(), st.floats(0.0, 12.0)).map(lambda t: [x * t[1] for x in t[0]])


def _instants_us():
    # whole seconds, arbitrary microseconds, and the sub-second offsets at which the time scales used inside the reduction
    # (TT = UTC + 32.184 s + leap seconds, UT1 = UTC + dUT1) themselves land on a whole second / minute: ...50.816, ...52.816
    frac = st.one_of(st.just(0), st.integers(0, 999999), st.sampled_from([816000, 815999, 816001, 184000]))
    plain = st.tuples(eop_instants(), frac).map(lambda t: iso(t[0] + timedelta(microseconds=t[1])))
    tt_minute = st.tuples(eop_instants(), st.sampled_from([50, 51, 52, 53])).map(
        lambda t: iso(t[0].replace(second=t[1], microsecond=816000)))
    return st.one_of(plain, plain, tt_minute)


def _lat():
    return st.one_of(st.floats(-PI / 2, PI / 2), st.sampled_from([PI / 2, -PI / 2, 0.0, 1e-9, PI / 2 - 1e-9, -PI / 2 + 1e-9, PI / 4]))


def _lon():
    return st.one_of(st.floats(-PI, PI), st.sampled_from([0.0, PI, -PI, PI / 2, -PI / 2, PI - 1e-12, -PI + 1e-12]))


def _near_special_dir(v):
    u = np.asarray(v, dtype=float)
    u = u / np.linalg.norm(u)
    return abs(abs(u[2]) - 1) < 5e-7 or (u[0] < 0 and abs(u[1]) < 1e-3) or abs(u[2]) < 1e-3


# ---------------------------------------------------------------------------- clause: eci <-> ecef
def _ee_cases():
    return st.builds(lambda t, r, v, r2: {"t": t, "r": r, "v": v, "r2": r2}, _instants_us(), _positions(), _velocities(), _positions())


@PROP.clause("eci_ecef", strategy=_ee_cases, quick=1500, thorough=60000, shards=4)
def eci_ecef(c, rec):
    """eci2ecef/ecef2eci mutually inverse, rigid (norms, distances, angles), proper rotation, documented velocity term"""
    from resonaate.physics.transforms.eops import getEarthOrientationParameters
    ecef2eci, eci2ecef = _pure('ecef2eci', 'eci2ecef')

    t = parse(c["t"])
    x = np.array(c["r"] + c["v"], dtype=float)
    y = np.array(c["r2"] + [0.0, 0.0, 0.0], dtype=float)
    bk = boundary_kind(t)
    if bk or _near_special_dir(c["r"]):
        rec.nontrivial([t.date().isoformat(), bk, [round(v, 0) for v in c["r"]]])
    if bk:
        rec.label("boundary:" + bk)
    rn = np.linalg.norm(x[:3])
    f = eci2ecef(x, t)
    back = ecef2eci(f, t)
    dp, dv = np.linalg.norm(back[:3] - x[:3]), np.linalg.norm(back[3:] - x[3:])
    rec.err("roundtrip_pos_rel", dp / rn)
    rec.err("roundtrip_vel_kms", dv)
    if dp > 1e-10 * rn or dv > 1e-11 * (1 + np.linalg.norm(x[3:])):
        raise Violation("eci_ecef_roundtrip", f"ecef2eci(eci2ecef(x)) off by {dp:.3e} km, {dv:.3e} km/s at {c['t']}")
    g = ecef2eci(x, t)
    back2 = eci2ecef(g, t)
    dp, dv = np.linalg.norm(back2[:3] - x[:3]), np.linalg.norm(back2[3:] - x[3:])
    if dp > 1e-10 * rn or dv > 1e-11 * (1 + np.linalg.norm(x[3:])):
        raise Violation("ecef_eci_roundtrip", f"eci2ecef(ecef2eci(x)) off by {dp:.3e} km, {dv:.3e} km/s at {c['t']}")
    # rigidity
    if abs(np.linalg.norm(f[:3]) - rn) > 1e-11 * rn:
        raise Violation("norm", f"eci2ecef changes |r| by {np.linalg.norm(f[:3]) - rn:.3e} km at {c['t']}")
    fy = eci2ecef(y, t)
    d0, d1 = np.linalg.norm(x[:3] - y[:3]), np.linalg.norm(f[:3] - fy[:3])
    if abs(d0 - d1) > 1e-10 * (rn + np.linalg.norm(y[:3])):
        raise Violation("distance", f"eci2ecef changes the distance between two points by {d1 - d0:.3e} km at {c['t']}")
    if abs(x[:3].dot(y[:3]) - f[:3].dot(fy[:3])) > 1e-10 * rn * np.linalg.norm(y[:3]):
        raise Violation("angle", f"eci2ecef changes the angle between two position vectors at {c['t']}")
    # the position map is a proper rotation Q (columns = images of the basis vectors)
    q = np.column_stack([eci2ecef(np.array([1.0, 0, 0, 0, 0, 0]) * (k == 0) + np.array([0, 1.0, 0, 0, 0, 0]) * (k == 1)
                                  + np.array([0, 0, 1.0, 0, 0, 0]) * (k == 2), t)[:3] for k in range(3)])
    if np.abs(q.T @ q - np.eye(3)).max() > 1e-13 or abs(np.linalg.det(q) - 1) > 1e-13:
        raise Violation("rotation", f"eci->ecef position map is not a proper rotation at {c['t']}")
    if np.linalg.norm(q @ x[:3] - f[:3]) > 1e-11 * rn:
        raise Violation("linearity", f"eci2ecef is not linear in position at {c['t']}")
    # velocity: v_ecef = Q v_eci - w x r_ecef with w ~ spin_rate*(1-LOD/86400) about the (polar-motion tilted) z axis
    _, _, spin = _earth()
    eop = getEarthOrientationParameters(t.date())
    w = spin * (1 - eop.length_of_day / 86400.0)
    resid = q @ x[3:] - f[3:]  # should equal w_vec x r_ecef
    pole = np.array([-eop.x_p, eop.y_p, 1.0])  # PEF z axis expressed in ECEF to first order: W^T e_z ~ (-xp, +yp, 1)... sign checked via magnitude only
    expect_mag = w * np.linalg.norm(np.cross(np.array([0, 0, 1.0]), f[:3]))
    got_mag = np.linalg.norm(resid)
    # polar motion tilts the axis by <= 1e-6 rad: allow 3e-6 relative + 1e-12 absolute
    if abs(got_mag - expect_mag) > 3e-6 * w * rn + 1e-12:
        raise Violation("velocity_term", f"|Q v_eci - v_ecef| = {got_mag!r}, expected |w x r| = {expect_mag!r} (w={w!r}) at {c['t']}")
    if abs(resid.dot(f[:3])) > 1e-9 * got_mag * rn + 1e-12:
        raise Violation("velocity_term_dir", "transport velocity is not perpendicular to the position")
    zdir = np.cross(f[:3], resid)  # (w x r) = resid => r x resid = w r^2 - (r.w) r ; its z-component sign gives the sense
    if expect_mag > 1e-6 and np.cross(np.array([0, 0, 1.0]), f[:3]).dot(resid) <= 0:
        raise Violation("velocity_term_sense", f"transport velocity has the wrong sense at {c['t']}")
    del pole, zdir


# ---------------------------------------------------------------------------- clause: geodesy
def _geo_cases():
    alt = st.one_of(st.floats(-0.4, 9.0), st.floats(0.0, 9 * RE), st.sampled_from([0.0, 0.095, 400.0, 35786.0]))
    return st.builds(lambda la, lo, al, p: {"lat": la, "lon": lo, "alt": al, "p": p}, _lat(), _lon(), alt, _positions())


@PROP.clause("geodetic", strategy=_geo_cases, quick=4000, thorough=200000, shards=2)
def geodetic(c, rec):
    """lla2ecef agrees with the reference-ellipsoid definition; ecef2lla inverts it everywhere incl. poles/equator"""
    ecef2lla, lla2ecef = _pure('ecef2lla', 'lla2ecef')

    a, e2, _ = _earth()
    lat, lon, alt = c["lat"], c["lon"], c["alt"]
    if abs(abs(lat) - PI / 2) < 1e-3 or abs(lat) < 1e-3 or abs(abs(lon) - PI) < 1e-3:
        rec.nontrivial([round(lat, 3), round(lon, 3), round(alt, -1)])
    p = lla2ecef(np.array([lat, lon, alt]))
    if p.shape != (6,) or np.any(p[3:] != 0):
        raise Violation("lla2ecef_shape", "lla2ecef must return a 6-vector with zero velocity")
    n = geodesy.normal(lat, lon)
    s = p[:3] - alt * n
    res = geodesy.on_ellipsoid_residual(s, a, e2)
    rec.err("ellipsoid_residual", abs(res))
    if abs(res) > 1e-12:
        raise Violation("ellipsoid", f"lla2ecef({lat!r},{lon!r},{alt!r}) minus alt*normal is not on the ellipsoid (residual {res:.3e})")
    if np.linalg.norm(np.cross(geodesy.gradient_dir(s, a, e2), n)) > 1e-12:
        raise Violation("normal", f"at the foot point the ellipsoid normal is not the geodetic-latitude direction for lat={lat!r}")
    back = ecef2lla(p)
    if not np.all(np.isfinite(back)):
        raise Violation("ecef2lla_nan", f"ecef2lla(lla2ecef({lat!r},{lon!r},{alt!r})) = {back}")
    # compared in position space (longitude is undefined at the poles, latitude ill-conditioned there): 1 m.
    # Calibration: worst error of the closed-form ecef2lla on the unchanged tree is 7.5e-6 km (near-equatorial points at
    # 9 Re); the mildest mutants (wrong flattening constant, sign slips) move points by >= 10 km.
    rn = float(np.linalg.norm(p[:3]))
    dlat = abs(back[0] - lat) * rn
    dlon = abs((back[1] - lon + PI) % TWOPI - PI) * math.cos(lat) * rn
    dalt = abs(back[2] - alt)
    rec.err("lla_roundtrip_km", max(dlat, dlon, dalt))
    if dlat > GEO_TOL or dlon > GEO_TOL or dalt > GEO_TOL:
        raise Violation("lla_roundtrip", f"ecef2lla(lla2ecef(lat={lat!r}, lon={lon!r}, alt={alt!r})) = {back.tolist()}")
    # arbitrary ECEF point -> geodetic -> ECEF, and against the independent iterative solution
    q = np.array(c["p"], dtype=float)
    g = ecef2lla(np.concatenate([q, np.zeros(3)]))
    if not np.all(np.isfinite(g)):
        raise Violation("ecef2lla_nan", f"ecef2lla({q.tolist()}) = {g}")
    if not (-PI / 2 <= g[0] <= PI / 2 and -PI <= g[1] <= PI):
        raise Violation("lla_range", f"ecef2lla({q.tolist()}) = {g.tolist()} outside latitude/longitude ranges")
    again = lla2ecef(g)[:3]
    d = np.linalg.norm(again - q)
    rec.err("ecef_roundtrip_km", d)
    if d > GEO_TOL:
        raise Violation("ecef_roundtrip", f"lla2ecef(ecef2lla(p)) off by {d:.3e} km for p={q.tolist()}")
    la, lo, al = geodesy.ecef2lla(q, a, e2)
    if abs(g[0] - la) * np.linalg.norm(q) > GEO_TOL or abs(g[2] - al) > GEO_TOL:
        raise Violation("ecef2lla_vs_reference", f"ecef2lla({q.tolist()}) = {g.tolist()}, iterative reference gives {(la, lo, al)}")


# ---------------------------------------------------------------------------- clause: topocentric
def _topo_cases():
    rates = st.floats(-1e-2, 1e-2)
    return st.builds(
        lambda la, lo, d, rho, v, az, el, rr, elr, azr: {"lat": la, "lon": lo, "d": d, "rho": rho, "v": v, "az": az, "el": el,
                                                          "rr": rr, "elr": elr, "azr": azr},
        _lat(), _lon(), _unit_dirs(), st.floats(1.0, 60000.0), _velocities(),
        st.one_of(st.floats(0, TWOPI, exclude_max=True), st.sampled_from([0.0, 1e-12, TWOPI - 1e-12, PI, PI / 2])),
        st.one_of(st.floats(-PI / 2 + 1e-6, PI / 2 - 1e-6), st.sampled_from([0.0, PI / 2 - 1e-6, 1e-9])),
        st.floats(-8, 8), rates, rates)


@PROP.clause("topocentric", strategy=_topo_cases, quick=4000, thorough=200000, shards=2)
def topocentric(c, rec):
    """SEZ <-> ECEF inverse/orthonormal with zenith = ellipsoid normal; razel <-> SEZ inverse incl. the azimuth seam"""
    ecef2sez, razel2sez, sez2ecef, sez2razel = _pure('ecef2sez', 'razel2sez', 'sez2ecef', 'sez2razel')

    lat, lon = c["lat"], c["lon"]
    x = np.array([k * c["rho"] for k in c["d"]] + c["v"], dtype=float)
    if abs(abs(lat) - PI / 2) < 1e-3 or c["az"] < 1e-3 or c["az"] > TWOPI - 1e-3 or c["el"] > PI / 2 - 1e-3:
        rec.nontrivial([round(lat, 2), round(lon, 2), round(c["az"], 3), round(c["el"], 3)])
    s = ecef2sez(x, lat, lon)
    back = sez2ecef(s, lat, lon)
    if np.linalg.norm(back - x) > 1e-11 * (c["rho"] + 12):
        raise Violation("sez_roundtrip", f"sez2ecef(ecef2sez(x)) off by {np.linalg.norm(back - x):.3e}")
    if abs(np.linalg.norm(s[:3]) - c["rho"]) > 1e-11 * c["rho"]:
        raise Violation("sez_norm", "ecef2sez changes the length of the position")
    e, n, u = geodesy.enu_basis(lat, lon)
    for name, sez_vec, want in (("zenith", [0, 0, 1.0], u), ("south", [1.0, 0, 0], -n), ("east", [0, 1.0, 0], e)):
        got = sez2ecef(np.array(sez_vec + [0, 0, 0], dtype=float), lat, lon)[:3]
        if np.linalg.norm(got - want) > 1e-12:
            raise Violation("sez_axes", f"SEZ {name} axis maps to {got.tolist()}, expected {want.tolist()} at lat={lat!r}, lon={lon!r}")
    # razel <-> sez
    rho, az, el = c["rho"], c["az"], c["el"]
    sz = razel2sez(rho, el, az, c["rr"], c["elr"], c["azr"])
    want_pos = rho * np.array([-math.cos(el) * math.cos(az), math.cos(el) * math.sin(az), math.sin(el)])
    if np.linalg.norm(sz[:3] - want_pos) > 1e-11 * rho:
        raise Violation("razel2sez", f"razel2sez(rho={rho!r}, el={el!r}, az={az!r}) position {sz[:3].tolist()} != definition {want_pos.tolist()}")
    r2, e2_, a2, rr2, er2, ar2 = sez2razel(sz)
    if not (0.0 <= a2 < TWOPI) and a2 != TWOPI:
        raise Violation("az_range", f"sez2razel azimuth {a2!r} outside [0, 2pi)")
    daz = abs((a2 - az + PI) % TWOPI - PI) * math.cos(el)
    if abs(r2 - rho) > 1e-11 * rho or abs(e2_ - el) > 1e-9 or daz > 1e-9:
        raise Violation("razel_roundtrip", f"sez2razel(razel2sez(rho={rho!r}, el={el!r}, az={az!r})) = {(r2, e2_, a2)}")
    if math.cos(el) > 1e-3:
        if abs(rr2 - c["rr"]) > 1e-9 or abs(er2 - c["elr"]) > 1e-9 or abs(ar2 - c["azr"]) > 1e-9 / math.cos(el):
            raise Violation("razel_rates", f"rates do not round trip: {(rr2, er2, ar2)} vs {(c['rr'], c['elr'], c['azr'])} at el={el!r}")
    # numeric derivative of the position map equals the velocity part
    h = 1e-4
    fwd = razel2sez(rho + c["rr"] * h, el + c["elr"] * h, az + c["azr"] * h, 0, 0, 0)[:3]
    bwd = razel2sez(rho - c["rr"] * h, el - c["elr"] * h, az - c["azr"] * h, 0, 0, 0)[:3]
    fd = (fwd - bwd) / (2 * h)
    if np.linalg.norm(fd - sz[3:]) > 1e-6 * (1 + rho * (abs(c["elr"]) + abs(c["azr"])) + abs(c["rr"])):
        raise Violation("razel_velocity", f"velocity part of razel2sez is not the time derivative of its position part: {sz[3:].tolist()} vs {fd.tolist()}")


# ---------------------------------------------------------------------------- clause: razel/radec through the full chain
def _chain_cases():
    return st.builds(lambda t, la, lo, alt, d, rho, v: {"t": t, "lat": la, "lon": lo, "alt": alt, "d": d, "rho": rho, "v": v},
                     _instants_us(), st.floats(-1.5, 1.5), _lon(), st.floats(0, 5), _unit_dirs(), st.floats(100.0, 50000.0), _velocities())


@PROP.clause("razel_radec", strategy=_chain_cases, quick=800, thorough=30000, shards=4)
def razel_radec(c, rec):
    """eci2razel equals independent topocentric geometry; razel<->radec mutually inverse; radec = direction of the ECI offset"""
    eci2ecef, eci2radec, eci2razel, lla2eci, radec2razel, razel2radec = _pure('eci2ecef', 'eci2radec', 'eci2razel', 'lla2eci', 'radec2razel', 'razel2radec')

    a, e2, _ = _earth()
    t = parse(c["t"])
    obs = lla2eci(np.array([c["lat"], c["lon"], c["alt"]]), t)
    e, n, u = geodesy.enu_basis(c["lat"], c["lon"])
    # place the target in the upper hemisphere of the site so azimuth/elevation are well defined
    d = np.array(c["d"])
    d = d if d.dot(u) > 0 else -d
    tgt_ecef = geodesy.lla2ecef(c["lat"], c["lon"], c["alt"], a, e2) + c["rho"] * d
    ecef2eci, = _pure('ecef2eci')

    tgt = ecef2eci(np.concatenate([tgt_ecef, np.zeros(3)]), t)
    tgt[3:] = c["v"]
    # every third case: an observer that moves in the Earth-fixed frame (space-based sensor above the same point)
    moving = int(abs(c["rho"]) * 1e3) % 3 == 0
    if moving:
        obs = np.array(obs, dtype=float)
        up = obs[:3] / np.linalg.norm(obs[:3])
        obs[:3] += 800.0 * up
        side = np.cross(up, [0.0, 0.0, 1.0]) if abs(up[2]) < 0.95 else np.cross(up, [1.0, 0.0, 0.0])
        obs[3:] = 7.4 * side / np.linalg.norm(side) + 0.3 * up
        tgt[:3] += 800.0 * up
    rec.label("observer:moving" if moving else "observer:ground_site")
    bk = boundary_kind(t)
    rng, el, az, rr, elr, azr = eci2razel(tgt, obs, t)
    if moving:
        lat_o, lon_o, _alt = geodesy.ecef2lla(eci2ecef(obs, t)[:3], a, e2)
    else:
        lat_o, lon_o = c["lat"], c["lon"]
    r0, a0, e0 = geodesy.razel(eci2ecef(tgt, t)[:3] - eci2ecef(obs, t)[:3], lat_o, lon_o)
    if bk or az < 1e-3 or az > TWOPI - 1e-3 or el > PI / 2 - 1e-3:
        rec.nontrivial([t.date().isoformat(), bk, round(az, 2), round(el, 2)])
    def _dir(az_, el_):
        return np.array([math.cos(el_) * math.cos(az_), math.cos(el_) * math.sin(az_), math.sin(el_)])

    sep = float(np.linalg.norm(_dir(az, el) - _dir(a0, e0)))  # azimuth is ill-conditioned at the zenith: compare directions
    rec.err("razel_vs_ref_rad", sep)
    if abs(rng - r0) > 1e-8 or sep > DIR_TOL or not (0.0 <= az <= TWOPI) or not (-PI / 2 <= el <= PI / 2):
        raise Violation("eci2razel", f"eci2razel gives (rho,az,el)=({rng!r},{az!r},{el!r}); independent topocentric geometry ({r0!r},{a0!r},{e0!r}) at {c['t']}")
    # range rate = d|rho|/dt in the inertial frame (frame independent)
    rel = tgt - obs
    rr_ref = rel[:3].dot(rel[3:]) / np.linalg.norm(rel[:3])
    if abs(rr - rr_ref) > 1e-9:
        raise Violation("range_rate", f"range rate {rr!r} != d|rho|/dt {rr_ref!r} at {c['t']}")
    radec = razel2radec(rng, el, az, rr, elr, azr, obs, t)
    back = radec2razel(*radec, obs, t)
    if abs(back[0] - rng) > 1e-7 or float(np.linalg.norm(_dir(back[2], back[1]) - _dir(az, el))) > DIR_TOL:
        raise Violation("radec_roundtrip", f"radec2razel(razel2radec(x)) = {back[:3]} vs {(rng, el, az)} at {c['t']}")
    if abs(back[3] - rr) > 1e-8:
        raise Violation("radec_roundtrip_rate", f"range rate {back[3]!r} vs {rr!r}")
    if math.cos(el) > 1e-2:
        if abs(back[4] - elr) > 1e-9 + 1e-7 * abs(elr) or abs(back[5] - azr) * math.cos(el) > 1e-9 + 1e-7 * abs(azr):
            raise Violation("radec_roundtrip_rate", f"angular rates do not survive razel->radec->razel: ({back[4]!r},{back[5]!r}) vs ({elr!r},{azr!r}) (observer {'moving' if moving else 'ground site'})")
    # the rates of right ascension / declination are the time derivatives of the spherical angles of the inertial offset
    x, y, z = rel[:3]
    vx, vy, vz = rel[3:]
    rho_ = float(np.linalg.norm(rel[:3]))
    rxy2 = x * x + y * y
    # (at the zenith the azimuth/elevation rates the chain starts from are not defined, at the celestial pole ra' is not)
    if rxy2 > 1e-6 * rho_ * rho_ and math.cos(el) > 1e-2:
        ra_dot = (x * vy - y * vx) / rxy2
        dec_dot = (vz - z * rr_ref / rho_) / math.sqrt(rxy2)
        if abs(radec[3] - rr_ref) > 1e-8 or abs(radec[4] - dec_dot) > 1e-9 + 1e-7 * abs(dec_dot) or abs(radec[5] - ra_dot) * math.sqrt(rxy2) / rho_ > 1e-9 + 1e-7 * abs(ra_dot):
            raise Violation("radec_rates", f"razel2radec rates (rho', dec', ra') = {tuple(float(v_) for v_ in radec[3:])}, time derivative of the inertial offset gives ({rr_ref!r}, {dec_dot!r}, {ra_dot!r}) (observer {'moving' if moving else 'ground site'})")
    # right ascension / declination are the spherical angles of the inertial offset
    dec_ref = math.asin(rel[2] / np.linalg.norm(rel[:3]))
    ra_ref = math.atan2(rel[1], rel[0]) % TWOPI
    if float(np.linalg.norm(_dir(radec[2], radec[1]) - _dir(ra_ref, dec_ref))) > DIR_TOL or abs(radec[0] - np.linalg.norm(rel[:3])) > 1e-7:
        raise Violation("radec_definition", f"razel2radec gives (rho,dec,ra)={radec[:3]}, direction of the ECI offset is ({np.linalg.norm(rel[:3])!r},{dec_ref!r},{ra_ref!r})")
    rd = eci2radec(tgt, obs, t)
    if float(np.linalg.norm(_dir(rd[2], rd[1]) - _dir(ra_ref, dec_ref))) > DIR_TOL:
        raise Violation("eci2radec", "eci2radec disagrees with the direction of the ECI offset")


# ---------------------------------------------------------------------------- clause: satellite frames
def _sat_cases():
    def mk(r, d, speed, mix, r2, v2):
        # velocity constructed with a guaranteed component perpendicular to r (orbit-plane frames need r x v != 0)
        rh = np.array(r) / np.linalg.norm(r)
        d = np.array(d)
        perp = d - d.dot(rh) * rh
        if np.linalg.norm(perp) < 1e-3:
            perp = np.cross(rh, [0.0, 0.0, 1.0]) if abs(rh[2]) < 0.9 else np.cross(rh, [1.0, 0.0, 0.0])
        perp = perp / np.linalg.norm(perp)
        v = speed * (math.cos(mix) * perp + math.sin(mix) * rh)
        return {"r": r, "v": [float(x) for x in v], "r2": r2, "v2": v2}

    return st.builds(mk, _positions(), _unit_dirs(), st.floats(0.1, 12.0), st.floats(-1.4, 1.4), _positions(), _velocities())


@PROP.clause("rsw_ntw", strategy=_sat_cases, quick=3000, thorough=100000, shards=2)
def rsw_ntw(c, rec):
    """RSW/NTW bases orthonormal and right handed with their defining alignments; eci2rsw and rsw2eci mutually inverse"""
    eci2rsw, ntw2eci, rsw2eci = _pure('eci2rsw', 'ntw2eci', 'rsw2eci')

    x = np.array(c["r"] + c["v"], dtype=float)
    y = np.array(c["r2"] + c["v2"], dtype=float)
    r, v = x[:3], x[3:]
    h = np.cross(r, v)
    if np.linalg.norm(h) < 1e-3 * np.linalg.norm(r) * max(np.linalg.norm(v), 1e-9) or np.linalg.norm(v) < 1e-6:
        from vf.runner import Skip

        raise Skip("rectilinear state: orbit-plane frames undefined")
    rec.nontrivial([round(k, -3) for k in c["r"]] + [round(k, 0) for k in c["v"]]) if _near_special_dir(c["r"]) else None
    rel = eci2rsw(x, y)
    back = rsw2eci(x, rel)
    if np.linalg.norm(back - (y - x)) > 1e-10 * (np.linalg.norm(y - x) + 1):
        raise Violation("rsw_roundtrip", f"rsw2eci(x, eci2rsw(x, y)) != y - x (off by {np.linalg.norm(back - (y - x)):.3e})")
    if abs(np.linalg.norm(rel[:3]) - np.linalg.norm((y - x)[:3])) > 1e-10 * (np.linalg.norm(y[:3] - x[:3]) + 1):
        raise Violation("rsw_norm", "eci2rsw changes the length of the relative position")
    cols = [rsw2eci(x, np.array([1.0 * (k == 0), 1.0 * (k == 1), 1.0 * (k == 2), 0, 0, 0]))[:3] for k in range(3)]
    m = np.column_stack(cols)
    if np.abs(m.T @ m - np.eye(3)).max() > 1e-12 or abs(np.linalg.det(m) - 1) > 1e-12:
        raise Violation("rsw_basis", "RSW basis is not orthonormal right-handed")
    if np.linalg.norm(cols[0] - r / np.linalg.norm(r)) > 1e-12 or np.linalg.norm(cols[2] - h / np.linalg.norm(h)) > 1e-12:
        raise Violation("rsw_alignment", "RSW: R must be along r and W along r x v")
    cols = [ntw2eci(x, np.array([1.0 * (k == 0), 1.0 * (k == 1), 1.0 * (k == 2), 0, 0, 0]))[:3] for k in range(3)]
    m = np.column_stack(cols)
    if np.abs(m.T @ m - np.eye(3)).max() > 1e-12 or abs(np.linalg.det(m) - 1) > 1e-12:
        raise Violation("ntw_basis", "NTW basis is not orthonormal right-handed")
    if np.linalg.norm(cols[1] - v / np.linalg.norm(v)) > 1e-12 or np.linalg.norm(cols[2] - h / np.linalg.norm(h)) > 1e-12:
        raise Violation("ntw_alignment", "NTW: T must be along v and W along r x v")
    w = ntw2eci(x, np.array(c["r2"] + c["v2"]))
    if abs(np.linalg.norm(w[:3]) - np.linalg.norm(c["r2"])) > 1e-10 * np.linalg.norm(c["r2"]) or abs(np.linalg.norm(w[3:]) - np.linalg.norm(c["v2"])) > 1e-10 * (1 + np.linalg.norm(c["v2"])):
        raise Violation("ntw_norm", "ntw2eci changes vector lengths")


# ---------------------------------------------------------------------------- clause: continuity in time
def _q(t):
    eci2ecef, = _pure('eci2ecef')

    return np.column_stack([eci2ecef(np.eye(6)[k], t)[:3] for k in range(3)])


def _rot_angle(qa, qb):
    m = qb @ qa.T
    return math.atan2(np.linalg.norm([m[2, 1] - m[1, 2], m[0, 2] - m[2, 0], m[1, 0] - m[0, 1]]) / 2, (np.trace(m) - 1) / 2)


def _cont_cases():
    lo, hi = eop_span()
    ndays = (hi - lo).days

    def mk(k, kind, delta_ms, frac, special):
        d = lo + timedelta(days=k)
        if special is not None:
            d = special
        d = min(max(d, lo + timedelta(days=1)), hi - timedelta(days=1))
        base = datetime(d.year, d.month, d.day)
        if kind == "minute":
            base += timedelta(hours=(k * 7) % 24, minutes=(k * 13) % 60)
        elif kind == "hour":
            base += timedelta(hours=(k * 7) % 24)
        elif kind == "inside":
            base += timedelta(seconds=(k * 7919) % 86400, microseconds=500000)
        return {"boundary": base.isoformat(), "delta_ms": delta_ms, "frac": frac, "kind": kind}

    specials = []
    for y in range(lo.year, hi.year + 1):
        for m_, d_ in ((1, 1), (3, 1), (2, 29), (7, 1), (12, 31), (2, 28)):
            try:
                dd = date(y, m_, d_)
            except ValueError:
                continue
            if lo < dd < hi:
                specials.append(dd)
    return st.builds(mk, st.integers(1, ndays - 1), st.sampled_from(["day", "day", "day", "minute", "hour", "inside", "tt_day", "tai_day", "ut1_day"]),
                     st.sampled_from([1, 1000, 60000]), st.sampled_from([0.5, 0.0, 1.0, 0.25]),
                     st.one_of(st.none(), st.none(), st.sampled_from(specials)))


@PROP.clause("continuity", strategy=_cont_cases, quick=1500, thorough=40000, shards=4)
def continuity(c, rec):
    """rotation between R(t) and R(t+d) equals Earth's rotation rate x d across every kind of calendar boundary"""
    from resonaate.physics.transforms.eops import getEarthOrientationParameters

    b = datetime.fromisoformat(c["boundary"])
    if c["kind"] in ("tt_day", "tai_day", "ut1_day"):
        # the instants at which the *other* time scales used inside the reduction (terrestrial, atomic, UT1) cross midnight
        e_prev = getEarthOrientationParameters((b - timedelta(days=1)).date())
        off = {"tt_day": e_prev.delta_atomic_time + 32.184, "tai_day": float(e_prev.delta_atomic_time), "ut1_day": -e_prev.delta_ut1}[c["kind"]]
        b = b - timedelta(seconds=off)
    delta = timedelta(milliseconds=c["delta_ms"])
    t0 = b - delta * c["frac"]
    t1 = t0 + delta
    _, _, spin = _earth()
    qa, qb = _q(t0), _q(t1)
    ang = _rot_angle(qa, qb)
    d_s = delta.total_seconds()
    expect = spin * d_s
    # leap second: the day on which TAI-UTC changes; straddling its 00:00:00 a jump of one second of rotation is legitimate
    e0 = getEarthOrientationParameters(t0.date())
    e1 = getEarthOrientationParameters(t1.date())
    leap = e0.delta_atomic_time != e1.delta_atomic_time
    kind = c["kind"] if c["kind"] != "day" else (boundary_kind(b, 0.5) or "day")
    if leap:
        kind = "leap_second"
    rec.label("kind:" + kind)
    if kind != "inside":
        rec.nontrivial([c["boundary"], c["delta_ms"], c["frac"]])
    err = abs(ang - expect)
    if leap:
        rec.err("leap_jump_rad", err)
        if err > spin * 1.0 + 1e-6:
            raise Violation("leap_jump", f"rotation across the leap second at {c['boundary']} jumps by {err:.3e} rad (> one second of rotation)")
        return
    if (t1.date() in LEAP_SECOND_DATES) != (t0.date() in LEAP_SECOND_DATES) and not leap:
        rec.label("leap_date_not_in_table")
    rec.err("continuity_rad:" + kind, err)
    # Two legitimate sources of a step: the daily Earth-orientation table (<= 1e-7 rad at 00:00 UTC), and a sawtooth of up to 2e-7 rad
    # within every second (the sidereal-minus-solar part of the rotation angle is advanced in whole seconds) which cancels when both
    # ends of the window have the same fraction of a second.  Windows free of both are continuous to 1e-12 rad on the unchanged tree.
    same_fraction = (delta.total_seconds() * 1e3) % 1000 == 0
    within_second = t0.replace(microsecond=0) == t1.replace(microsecond=0)
    quiet = (same_fraction or within_second) and t0.date() == t1.date()
    rec.label("window:quiet" if quiet else "window:eop_or_subsecond_step")
    if err > (5e-8 if quiet else 5e-7):
        raise Violation("discontinuity", f"R({t0.isoformat()}) -> R(+{d_s}s) rotates by {ang!r} rad, Earth rotation gives {expect!r} (diff {err:.3e}) [{kind}]")
    # rotation axis is (almost) the ECI z axis and the sense is eastward: ECEF x-axis moves towards +y in ECI
    xa, xb = qa.T[:, 0], qb.T[:, 0]
    if expect > 2e-6 and np.cross(xa, xb)[2] <= 0:  # (daily EOP steps of ~1e-7 rad may exceed a 1 ms rotation)
        raise Violation("sense", f"Earth-fixed x axis moves westward in the inertial frame at {c['boundary']}")


# ---------------------------------------------------------------------------- clause: absolute anchor
def _gmst82(jd_ut1):
    """IAU-82 GMST (rad) from the UT1 Julian date - standard polynomial, independent implementation."""
    t = (jd_ut1 - 2451545.0) / 36525.0
    sec = 67310.54841 + (876600.0 * 3600.0 + 8640184.812866) * t + 0.093104 * t * t - 6.2e-6 * t**3
    return math.radians((sec % 86400.0) / 240.0) % TWOPI


def _anchor_cases():
    return st.builds(lambda t: {"t": t}, _instants_us())


@PROP.clause("anchor", strategy=_anchor_cases, quick=1500, thorough=60000, shards=2)
def anchor(c, rec):
    """Greenwich angle of the ECI->ECEF rotation within 2e-4 rad of independent GMST-82(UT1)+precession; pole within 0.5 deg"""
    from resonaate.physics.transforms.eops import getEarthOrientationParameters

    t = parse(c["t"])
    q = _q(t)
    bk = boundary_kind(t)
    if bk or t.second:
        rec.nontrivial(c["t"])
    eop = getEarthOrientationParameters(t.date())
    # UT1 Julian date from the proleptic ordinal (exact day count) + seconds of day
    sod = t.hour * 3600 + t.minute * 60 + t.second + t.microsecond / 1e6 + eop.delta_ut1
    jd_ut1 = t.toordinal() + 1721424.5 + sod / 86400.0
    cent = (jd_ut1 - 2451545.0) / 36525.0
    prec_ra = math.radians((2306.2181 + 2306.2181) * cent / 3600.0 + (0.30188 + 1.09468) * cent**2 / 3600.0)
    theta = math.atan2(q[0, 1], q[0, 0]) % TWOPI  # right ascension of the Earth-fixed x axis in the inertial frame
    want = (_gmst82(jd_ut1) - prec_ra) % TWOPI
    d = abs((theta - want + PI) % TWOPI - PI)
    rec.err("greenwich_angle_rad", d)
    if d > 2e-4:
        raise Violation("greenwich_angle", f"Greenwich angle {theta!r} rad at {c['t']}, independent GMST-82(UT1) minus precession gives {want!r} (diff {d:.3e})")
    pole = math.acos(max(-1, min(1, q[2, 2])))
    if pole > math.radians(0.5):
        raise Violation("pole", f"Earth-fixed z axis is {math.degrees(pole):.3f} deg from the inertial z axis at {c['t']}")


# ---------------------------------------------------------------------------- clause: helpers
def _helper_cases():
    v3 = st.tuples(st.floats(-10, 10), st.floats(-10, 10), st.floats(-10, 10)).map(list)
    ang = st.one_of(st.floats(-4 * PI, 4 * PI), st.sampled_from([0.0, PI, -PI, PI / 2, TWOPI]))
    return st.builds(lambda a, b, w, v: {"a": a, "b": b, "w": w, "v": v}, ang, ang, v3, v3)


@PROP.clause("helpers", strategy=_helper_cases, quick=4000, thorough=200000, shards=2)
def helpers(c, rec):
    """rot_i orthogonal/det 1/additive/transposed by negation/axis fixed; skewSymmetric(w) v = w x v; dotRot_i = time derivative"""
    from resonaate.physics import maths as m

    a, b = c["a"], c["b"]
    w, v = np.array(c["w"]), np.array(c["v"])
    if any(x != 0 for x in c["w"]) and len({abs(x) for x in c["w"]}) == 3:
        rec.nontrivial([round(a, 2), [round(x, 1) for x in c["w"]]])
    for i, rot in enumerate((m.rot1, m.rot2, m.rot3)):
        ra = rot(a)
        if np.abs(ra @ ra.T - np.eye(3)).max() > 1e-14 or abs(np.linalg.det(ra) - 1) > 1e-14:
            raise Violation("rot_orthogonal", f"rot{i + 1}({a!r}) is not a proper rotation")
        if np.abs(rot(a) @ rot(b) - rot(a + b)).max() > 1e-13:
            raise Violation("rot_additive", f"rot{i + 1}(a) rot{i + 1}(b) != rot{i + 1}(a+b) for a={a!r}, b={b!r}")
        if np.abs(rot(-a) - ra.T).max() > 0:
            raise Violation("rot_transpose", f"rot{i + 1}(-a) != rot{i + 1}(a)^T")
        axis = np.eye(3)[i]
        if np.abs(ra @ axis - axis).max() > 0:
            raise Violation("rot_axis", f"rot{i + 1} does not fix its axis")
        # passive (frame) rotation sense: a vector along the next axis acquires a negative component along the one after
        nxt, aft = np.eye(3)[(i + 1) % 3], np.eye(3)[(i + 2) % 3]
        if abs((ra @ nxt).dot(aft) + math.sin(a)) > 1e-15 or abs((ra @ nxt).dot(nxt) - math.cos(a)) > 1e-15:
            raise Violation("rot_sense", f"rot{i + 1}({a!r}) is not the documented frame rotation")
    sk = m.skewSymmetric(w)
    if np.abs(sk + sk.T).max() > 0:
        raise Violation("skew_antisymmetric", f"skewSymmetric({c['w']}) is not antisymmetric: {sk.tolist()}")
    if np.abs(sk @ v - np.cross(w, v)).max() > 1e-13 * (1 + np.linalg.norm(w) * np.linalg.norm(v)):
        raise Violation("skew_cross", f"skewSymmetric(w) v != w x v for w={c['w']}, v={c['v']}")
    ref_sk = np.array([[0, -w[2], w[1]], [w[2], 0, -w[0]], [-w[1], w[0], 0]])
    for i, (rot, drot) in enumerate(((m.rot1, m.dotRot1), (m.rot2, m.dotRot2), (m.rot3, m.dotRot3))):
        if np.abs(drot(a, w) - rot(a) @ ref_sk).max() > 1e-13 * (1 + np.linalg.norm(w)):
            raise Violation("dotrot_definition", f"dotRot{i + 1}(a, w) != rot{i + 1}(a) [w]x for a={a!r}, w={c['w']}")
        # time derivative: source frame spinning at rate om about axis i relative to the destination => angle(t) = a - om t
        om = w[i]
        h = 1e-6
        fd = (rot(a - om * h) - rot(a + om * h)) / (2 * h)
        got = drot(a, om * np.eye(3)[i])
        if np.abs(got - fd).max() > 1e-8 * (1 + abs(om)):
            raise Violation("dotrot_derivative", f"dotRot{i + 1}({a!r}, {om!r} e{i + 1}) is not d/dt rot{i + 1}: {got.tolist()} vs {fd.tolist()}")
