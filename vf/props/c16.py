"""C16 - filter updates are invariant to angle representation and observation order."""

from __future__ import annotations

import math
from datetime import datetime

import numpy as np
from hypothesis import strategies as st

from vf.runner import Prop, Skip, Violation

PI, TWOPI = math.pi, 2 * math.pi

PROP = Prop(
    "C16",
    rule=(
        "helpers: Hypothesis angles from {0, +-pi, 2pi, k*2pi +- eps, huge multiples, uniform}, weights incl. UKF-like sets with "
        "negative centre weight; filter: the real UnscentedKalmanFilter with real two-body dynamics and real Measurement objects "
        "(az/el and az/el/range/range-rate, real angular flags), geometry from a ground site, turn offsets m*2pi with m in -5..5, "
        "wrap-point offsets that put the predicted azimuth/elevation on or next to the 0/2pi and +-pi seams, permutations of up to "
        "four stacked observations of mixed kinds; in half of the cases the same filter object first processes an earlier update "
        "with another measurement layout (random, or the same stacked dimension arranged differently). Non-trivial = value within 1e-6 of a seam, |m| >= 1, or a non-identity "
        "permutation; distinct by rounded inputs."
    ),
    assumptions=[
        "wrap-point offsets are realised by a harness-defined subclass of the real Azimuth/Elevation measurement types that adds a "
        "constant before re-wrapping into the documented range (the filter path - circular mean, residuals, flags - is the real one)",
        "posterior tolerance scales with the magnitude of the centre sigma weight (alpha=1e-3 gives |w0| ~ 1e6)",
    ],
)


def _angdiff(a, b):
    return abs((a - b + PI) % TWOPI - PI)


# ------------------------------------------------------------------------------------------------
def _angles():
    eps = st.sampled_from([0.0, 1e-12, -1e-12, 1e-9, -1e-9, 1e-6, -1e-6])
    base = st.sampled_from([0.0, PI, -PI, TWOPI, -TWOPI, PI / 2, 3 * PI])
    return st.one_of(
        st.floats(-10, 10),
        st.builds(lambda b, e: b + e, base, eps),
        st.builds(lambda k, x: k * TWOPI + x, st.integers(-1000, 1000), st.floats(-PI, PI)),
        st.builds(lambda k, e: k * TWOPI + e, st.sampled_from([1e6, -1e6, 12345678]), st.floats(-PI, PI)),
    )


def _res_cases():
    return st.builds(lambda a, b, m: {"a": a, "b": b, "m": m}, _angles(), _angles(), st.integers(-5, 5))


@PROP.clause("residual_helpers", strategy=_res_cases, quick=8000, thorough=400000, shards=2)
def residual_helpers(c, rec):
    """residual/residuals/vecResiduals == a-b (mod 2pi) in (-pi,pi], turn-invariant, antisymmetric; wrap helpers in range and == input mod 2pi"""
    from resonaate.physics import maths as m

    a, b, k = c["a"], c["b"], c["m"]
    scale = 1e-12 + 8 * np.finfo(float).eps * (abs(a) + abs(b) + abs(k) * TWOPI + TWOPI)
    seam = min(_angdiff(a - b, PI), _angdiff(a, 0.0), _angdiff(b, 0.0)) < 1e-6
    if seam or k != 0 or abs(a) > 100 or abs(b) > 100:
        rec.nontrivial([round(a % TWOPI, 6), round(b % TWOPI, 6), k, abs(a) > 100])
    r = float(m.residual(a, b, True))
    if not (-PI < r <= PI):
        raise Violation("residual_range", f"residual({a!r}, {b!r}, angular) = {r!r} outside (-pi, pi]")
    if _angdiff(r, a - b) > scale:
        raise Violation("residual_value", f"residual({a!r}, {b!r}) = {r!r} is not a-b modulo 2pi")
    r_turn = float(m.residual(a + k * TWOPI, b, True))
    # next to the +-pi seam a rounding-size change of the input legitimately flips the representative: compare mod 2pi
    if _angdiff(r_turn, r) > 4 * scale:
        raise Violation("residual_turns", f"residual changes from {r!r} to {r_turn!r} when {k} turns are added to the first angle")
    r_rev = float(m.residual(b, a, True))
    if _angdiff(r_rev, -r) > 4 * scale:
        raise Violation("residual_antisymmetry", f"residual(b,a)={r_rev!r} != -residual(a,b)={-r!r}")
    if float(m.residual(a, b, False)) != a - b:
        raise Violation("residual_linear", "non-angular residual must be the plain difference")
    vec = m.residuals(np.array([a, a, b]), np.array([b, b, a]), np.array([True, False, True]))
    if float(vec[0]) != r or float(vec[1]) != a - b or float(vec[2]) != r_rev:
        raise Violation("residuals_vector", f"residuals() disagrees with residual() component-wise: {vec.tolist()}")
    # vecResiduals is documented for wrapped inputs ([-2pi, 2pi)): same congruence, range [-pi, pi]
    aw, bw = a % TWOPI, b % TWOPI
    vr = m.vecResiduals(np.array([aw, aw]), np.array([bw, bw]), np.array([True, False]))
    if not (-PI <= float(vr[0]) <= PI) or _angdiff(float(vr[0]), aw - bw) > scale or float(vr[1]) != aw - bw:
        raise Violation("vec_residuals", f"vecResiduals({aw!r}, {bw!r}) = {vr.tolist()}")
    # wrapping helpers
    w2 = float(m.wrapAngle2Pi(a))
    if w2 == TWOPI:
        if not rec.excluded("K1-exact-2pi"):
            raise Violation("wrap2pi_exact_2pi", f"wrapAngle2Pi({a!r}) = 2pi exactly, outside the documented [0, 2pi)")
        w2 = 0.0
    if not (0.0 <= w2 < TWOPI) or _angdiff(w2, a) > scale:
        raise Violation("wrap2pi", f"wrapAngle2Pi({a!r}) = {w2!r}")
    wn = float(m.wrapAngleNegPiPi(a))
    if not (-PI < wn <= PI) or _angdiff(wn, a) > scale:
        raise Violation("wrap_neg_pi_pi", f"wrapAngleNegPiPi({a!r}) = {wn!r} (documented range (-pi, pi])")


@PROP.known("K1-exact-2pi")
def known_exact_2pi(clause, case, viol):
    return viol.label == "wrap2pi_exact_2pi"


# ------------------------------------------------------------------------------------------------
def _ukf_weights(n, alpha, beta, kappa):
    lam = alpha**2 * (n + kappa) - n
    w = np.full(2 * n + 1, 1.0 / (2 * (n + lam)))
    w[0] = lam / (n + lam)
    return w


def _mean_cases():
    def mk(centre, spread, offs, kind, alpha, turn, rot, low_high):
        n = len(offs)
        return {"centre": centre, "spread": spread, "offs": offs, "kind": kind, "alpha": alpha, "turn": turn, "rot": rot, "lh": low_high, "n": n}

    return st.builds(
        mk,
        st.one_of(st.floats(-PI, TWOPI), st.sampled_from([0.0, TWOPI, PI, -PI, 1e-9, TWOPI - 1e-9])),
        st.sampled_from([1e-6, 1e-3, 0.1, 1.0]),
        st.lists(st.floats(-1, 1), min_size=3, max_size=13),
        st.sampled_from(["uniform", "none", "ukf", "ukf", "positive"]),
        st.sampled_from([1.0, 0.5, 0.1, 1e-3, 1e-4, 3e-5]),
        st.lists(st.integers(-3, 3), min_size=13, max_size=13),
        st.floats(-TWOPI, TWOPI),
        st.sampled_from([[0.0, TWOPI], [-PI, PI]]),
    )


@PROP.clause("angular_mean", strategy=_mean_cases, quick=6000, thorough=300000, shards=2)
def angular_mean(c, rec):
    """angularMean == atan2(sum w sin, sum w cos) mapped into [low, high]; invariant to turn offsets; equivariant under rotation"""
    from resonaate.physics.maths import angularMean

    offs = np.array(c["offs"])
    n = len(offs)
    low, high = c["lh"]
    ang = c["centre"] + c["spread"] * offs
    if c["kind"] == "none":
        w = None
        wv = np.ones(n)
    elif c["kind"] == "uniform":
        wv = np.ones(n) / n
        w = wv
    elif c["kind"] == "positive":
        wv = np.abs(offs) + 0.1
        wv = wv / wv.sum()
        w = wv
    else:
        if n % 2 == 0:
            ang, offs, n = ang[:-1], offs[:-1], n - 1
        half = (n - 1) // 2
        # UKF-like symmetric set: centre + symmetric pairs, centre weight negative for small alpha
        sym = c["spread"] * np.abs(offs[1:half + 1])
        ang = np.concatenate([[c["centre"]], c["centre"] + sym, c["centre"] - sym])
        wv = _ukf_weights(half, c["alpha"], 2.0, 3.0 - half)
        w = wv
    s, co = float(np.sum(wv * np.sin(ang))), float(np.sum(wv * np.cos(ang)))
    # rounding of the weighted sums is ~eps * sum|w| (the centre weight of a sigma set is ~ -1/alpha^2); the direction of the
    # resultant is meaningful as long as its length is far above that
    res = math.hypot(s, co)
    noise = 4 * np.finfo(float).eps * float(np.sum(np.abs(wv))) * len(wv)
    if res < 1e4 * noise or res < 1e-7 * float(abs(np.sum(wv))):
        raise Skip("resultant vector ~ 0: circular mean undefined")
    ref = math.atan2(s, co)
    tol = max(1e-10, 50 * noise / res)
    near_seam = min(_angdiff(ref, low), _angdiff(ref, 0.0), _angdiff(ref, PI)) < 1e-6
    if near_seam or (w is not None and wv[0] < 0) or any(c["turn"][:n]):
        rec.nontrivial([round(c["centre"], 4), c["spread"], c["kind"], c["alpha"], n, low])
    if w is not None and wv[0] < 0:
        rec.label("negative_centre_weight")
    got = float(angularMean(ang, weights=w, low=low, high=high))
    if not (low <= got <= high):
        raise Violation("mean_range", f"angularMean = {got!r} outside [{low!r}, {high!r}]")
    if _angdiff(got, ref) > tol:
        raise Violation("mean_value", f"angularMean({ang.tolist()}, w={None if w is None else wv.tolist()}) = {got!r}, atan2 of the weighted resultant = {ref!r}")
    turned = ang + TWOPI * np.array(c["turn"][:len(ang)])
    got_t = float(angularMean(turned, weights=w, low=low, high=high))
    if _angdiff(got_t, got) > 10 * tol:
        raise Violation("mean_turns", f"angularMean changes from {got!r} to {got_t!r} when whole turns {c['turn'][:len(ang)]} are added")
    got_r = float(angularMean(ang + c["rot"], weights=w, low=low, high=high))
    if _angdiff(got_r, got + c["rot"]) > 10 * tol:
        raise Violation("mean_rotation", f"rotating all angles by {c['rot']!r} moves the mean from {got!r} to {got_r!r}")


# ------------------------------------------------------------------------------------------------
# filter-level clauses
# ------------------------------------------------------------------------------------------------
EPOCH = datetime(2019, 5, 17, 10, 11, 12)


def _make_types():
    from resonaate.physics.measurements import Azimuth, Elevation, IsAngle

    class ShiftedAzimuth(Azimuth):
        """Real azimuth plus a constant, re-wrapped into the documented [0, 2pi)."""

        def __init__(self, delta):
            self.delta = delta

        def calculate(self, sen_eci_state, tgt_eci_state, utc_date):
            v = math.fmod(super().calculate(sen_eci_state, tgt_eci_state, utc_date) + self.delta, TWOPI)
            if v < 0:
                v += TWOPI
            return 0.0 if v >= TWOPI else v

    class ShiftedElevation(Elevation):
        """Real elevation plus a constant, re-wrapped into the documented [-pi, pi)."""

        def __init__(self, delta):
            self.delta = delta

        def calculate(self, sen_eci_state, tgt_eci_state, utc_date):
            v = (super().calculate(sen_eci_state, tgt_eci_state, utc_date) + self.delta + PI) % TWOPI - PI
            return -PI if v >= PI else v

    assert ShiftedAzimuth(0).is_angular == IsAngle.ANGLE_0_2PI and ShiftedElevation(0).is_angular == IsAngle.ANGLE_NEG_PI_PI
    return ShiftedAzimuth, ShiftedElevation


def _scene(c):
    """Sensor(s) on the ground, estimate above the first site at the drawn azimuth/elevation/range."""
    from resonaate.physics.transforms.methods import ecef2eci, lla2ecef, sez2ecef

    lat, lon = c["lat"], c["lon"]
    site = lla2ecef(np.array([lat, lon, 0.1]))
    az, el, rho = c["az"], c["el"], c["rho"]
    sez = np.array([-rho * math.cos(el) * math.cos(az), rho * math.cos(el) * math.sin(az), rho * math.sin(el), 0, 0, 0.0])
    tgt_ecef = site + sez2ecef(sez, lat, lon)
    tgt = ecef2eci(tgt_ecef, EPOCH)
    r = tgt[:3]
    # give it a circular-ish inertial velocity perpendicular to r
    k = np.cross(r, [0.0, 0.0, 1.0])
    k = k / np.linalg.norm(k)
    tgt[3:] = math.sqrt(398600.4415 / np.linalg.norm(r)) * k
    sensors = [ecef2eci(site, EPOCH)]
    for dlat, dlon in ((0.05, 0.03), (-0.04, 0.06), (0.02, -0.07), (0.06, -0.02), (-0.03, -0.05)):
        sensors.append(ecef2eci(lla2ecef(np.array([lat + dlat, lon + dlon, 0.2])), EPOCH))
    return tgt, sensors


def _build_filter(x0, alpha, resample):
    from resonaate.dynamics.two_body import TwoBody
    from resonaate.estimation.kalman.unscented_kalman_filter import UnscentedKalmanFilter
    from resonaate.physics.time.stardate import ScenarioTime

    p0 = np.diag([1.0, 1.0, 1.0, 1e-6, 1e-6, 1e-6])
    q = np.diag([1e-8] * 3 + [1e-12] * 3)
    return UnscentedKalmanFilter(4242, ScenarioTime(0.0), np.array(x0, dtype=float), p0, TwoBody(), q, resample=resample, alpha=alpha)


def _obs(kind, sensor_eci, truth, jd, daz=0.0, d_el=0.0, turn_az=0, turn_el=0, sid=1, when=None):
    from resonaate.data.observation import Observation
    from resonaate.physics.measurements import Measurement, Range, RangeRate

    shifted_az, shifted_el = _make_types()
    if kind == "optical":
        types = [shifted_az(daz), shifted_el(d_el)]
        r = np.diag([1e-8, 1e-8])
    else:
        types = [shifted_az(daz), shifted_el(d_el), Range(), RangeRate()]
        r = np.diag([1e-8, 1e-8, 1e-4, 1e-8])
    meas = Measurement(types, r)
    vals = meas.calculateMeasurement(sensor_eci, truth, when or EPOCH_T, noisy=False)
    vals["azimuth_rad"] = vals["azimuth_rad"] + TWOPI * turn_az
    vals["elevation_rad"] = vals["elevation_rad"] + TWOPI * turn_el
    return Observation(julian_date=jd, sensor_id=sid, target_id=4242, sensor_type="Optical" if kind == "optical" else "Radar",
                       sensor_eci=sensor_eci, measurement=meas, **vals)


EPOCH_T = EPOCH


def _posterior(c, obs_builder):
    from resonaate.physics.time.stardate import ScenarioTime, datetimeToJulianDate

    tgt, sensors = _scene(c)
    jd = float(datetimeToJulianDate(EPOCH))
    truth = tgt + np.array(c["err"]) * np.array([1, 1, 1, 1e-3, 1e-3, 1e-3])
    f = _build_filter(tgt, c["alpha"], c["resample"])
    # one prediction step over zero-ish time is not allowed (final > initial): propagate the estimate back first
    from vf.oracles import kepler

    pre = _pre_kinds(c)
    dt = c["dt"]
    if not pre:
        f.est_x = kepler.propagate(tgt, -dt)
        f.predict(ScenarioTime(dt))
    else:
        # an earlier update of the SAME filter object with another measurement layout (identical in every compared run)
        from datetime import timedelta

        f.est_x = kepler.propagate(tgt, -2 * dt)
        f.predict(ScenarioTime(dt))
        truth_pre = kepler.propagate(truth, -dt)
        when = EPOCH - timedelta(seconds=dt)
        f.update([_obs(k, sensors[i], truth_pre, jd - dt / 86400.0, sid=i + 1, when=when) for i, k in enumerate(pre)])
        # (between steps the filter travels through the Ray object store and comes back as a copy with read-only arrays)
        from vf import raydouble

        f = raydouble._loads(raydouble._dumps(f))
        f.predict(ScenarioTime(2 * dt))
    observations = obs_builder(sensors, truth, jd)
    f.update(observations)
    return f


def _pre_kinds(c):
    """Layout of the earlier update: none, random, or the same stacked dimension as the compared update in another arrangement."""
    mode = c.get("pre_mode", 0)
    kinds = list(c["kinds"])
    if mode == 0:
        return []
    if mode == 1:
        return list(c.get("pre_kinds", ["radar"]))
    if "radar" in kinds:
        i = kinds.index("radar")
        out = kinds[:i] + ["optical", "optical"] + kinds[i + 1:]
        return out if mode == 2 or out == out[::-1] else out[::-1]
    if kinds.count("optical") >= 2:
        return ["radar"] + kinds[2:]
    return kinds[::-1]


def _filter_cases():
    site = st.tuples(st.floats(-1.2, 1.2), st.floats(-PI, PI))
    return st.builds(
        lambda s, az, el, rho, err, alpha, resample, dt, m_az, m_el, eps, kinds, perm, which, pre_mode, pre_kinds:
        {"lat": s[0], "lon": s[1], "az": az, "el": el, "rho": rho, "err": err, "alpha": alpha, "resample": resample, "dt": dt,
         "m_az": m_az, "m_el": m_el, "eps": eps, "kinds": kinds, "perm": perm, "which": which, "pre_mode": pre_mode, "pre_kinds": pre_kinds},
        site,
        st.one_of(st.floats(0, TWOPI, exclude_max=True), st.sampled_from([0.0, 1e-7, TWOPI - 1e-7, PI, PI / 2])),
        st.floats(0.2, 1.3), st.floats(800.0, 30000.0),
        st.lists(st.floats(-1.5, 1.5), min_size=6, max_size=6),
        st.sampled_from([1.0, 0.5, 0.05, 1e-3, 1e-3, 1e-4]), st.booleans(), st.sampled_from([10.0, 60.0]),
        st.integers(-5, 5), st.integers(-5, 5), st.sampled_from([0.0, 1e-9, -1e-9, 1e-6, -1e-6, 1e-4, -1e-4, 0.3]),
        st.lists(st.sampled_from(["optical", "radar"]), min_size=1, max_size=4),
        st.permutations([0, 1, 2, 3]), st.sampled_from(["az", "el", "both"]),
        st.sampled_from([0, 0, 1, 2, 3]), st.lists(st.sampled_from(["optical", "radar"]), min_size=1, max_size=4))


def _tols(f):
    w0 = abs(float(f.mean_weight[0]))
    g = max(1.0, w0)
    return 1e-9 * g, 1e-12 * g, g  # km, km/s


def _compare(label, fa, fb, rec, what):
    tp, tv, g = _tols(fa)
    dx = fa.est_x - fb.est_x
    dp = float(np.linalg.norm(dx[:3]))
    dv = float(np.linalg.norm(dx[3:]))
    # the update is P- - K S K^T (cancellation): rounding differences are relative to the *prior* covariance scale
    dP = float(np.abs(fa.est_p - fb.est_p).max() / max(1e-300, np.abs(fa.pred_p).max()))
    rec.err(label + "_pos_km_per_w0", dp / g)
    rec.err(label + "_cov_rel_per_w0", dP / g)
    # calibration: worst rounding-level differences seen on the unchanged tree over ~1e4 cases are 4e-10 km and 1e-9 (cov, rel.
    # to the prior; the larger values occur after an earlier update) per unit |w0|; tolerances are >= 100x that; the mildest mutants (unwrapped residual, arithmetic mean at
    # the seam) change the posterior by km / O(1) relative
    if dp > tp * 1e3 or dv > tv * 1e3 or dP > 1e-7 * g:
        raise Violation(label, f"{what}: posterior differs by {dp:.3e} km, {dv:.3e} km/s, covariance rel {dP:.3e} (|w0|={g:.3g})")


@PROP.clause("ukf_representation", strategy=_filter_cases, quick=500, thorough=20000, shards=8)
def ukf_representation(c, rec):
    """UKF posterior unchanged by whole turns added to angular measurements and by moving the wrap point onto/off the seam; innovations in (-pi, pi]"""
    kinds = c["kinds"]

    def builder(daz=0.0, d_el=0.0, turn_az=0, turn_el=0):
        def b(sensors, truth, jd):
            return [_obs(k, sensors[i], truth, jd, daz, d_el, turn_az, turn_el, sid=i + 1) for i, k in enumerate(kinds)]

        return b

    base = _posterior(c, builder())
    innov = np.array(base.innovation)
    ang = np.array(base.is_angular, dtype=bool)
    if np.any(~((innov[ang] > -PI) & (innov[ang] <= PI))):
        raise Violation("innovation_range", f"angular innovation outside (-pi, pi]: {innov[ang].tolist()}")
    if c["m_az"] or c["m_el"] or abs(c["eps"]) < 1e-3:
        rec.nontrivial([round(c["az"], 3), c["m_az"], c["m_el"], c["eps"], c["alpha"], c["resample"], tuple(kinds), c["which"], c.get("pre_mode", 0)])
    rec.label("resample" if c["resample"] else "no_resample")
    rec.label(f"earlier_update:{('none', 'random_layout', 'same_dim_other_layout', 'same_dim_other_layout')[c.get('pre_mode', 0)]}")
    # (1) whole turns on the reported angles
    turned = _posterior(c, builder(turn_az=c["m_az"], turn_el=c["m_el"]))
    _compare("turns", base, turned, rec, f"adding {c['m_az']} turns to azimuth and {c['m_el']} to elevation measurements")
    # (2) wrap point moved so that the predicted angle sits on / next to the seam
    pred = np.array(base.mean_pred_y)
    daz = (-pred[0] + c["eps"]) if c["which"] in ("az", "both") else 0.0
    d_el = (PI - pred[1] + c["eps"]) if c["which"] in ("el", "both") else 0.0
    shifted = _posterior(c, builder(daz=daz, d_el=d_el))
    sp = np.array(shifted.mean_pred_y)
    if c["which"] in ("az", "both") and _angdiff(sp[0], c["eps"]) > 1e-6:
        # the offset was chosen so that the predicted azimuth becomes eps (mod 2pi): the circular mean must follow
        raise Violation("seam_mean", f"predicted azimuth was {pred[0]!r}; after adding the constant {daz!r} to every azimuth the filter predicts {sp[0]!r} instead of {c['eps'] % TWOPI!r}")
    if c["which"] in ("el", "both") and _angdiff(sp[1], PI + c["eps"]) > 1e-6:
        raise Violation("seam_mean", f"predicted elevation was {pred[1]!r}; after adding the constant {d_el!r} the filter predicts {sp[1]!r} instead of pi+{c['eps']!r} (mod 2pi)")
    si = np.array(shifted.innovation)
    if np.any(~((si[ang] > -PI) & (si[ang] <= PI))):
        raise Violation("innovation_range", f"angular innovation outside (-pi, pi] with the target on the seam: {si[ang].tolist()}")
    if float(np.abs(si - innov).max()) > 1e-9 * max(1.0, abs(float(base.mean_weight[0]))):
        raise Violation("seam_innovation", f"innovation changes when the wrap point is moved onto the seam: {innov.tolist()} -> {si.tolist()}")
    _compare("seam", base, shifted, rec, f"moving the wrap point (azimuth offset {daz!r}, elevation offset {d_el!r})")


@PROP.clause("ukf_permutation", strategy=_filter_cases, quick=400, thorough=15000, shards=8)
def ukf_permutation(c, rec):
    """UKF posterior unchanged (up to rounding) by reordering simultaneous observations of mixed kinds"""
    kinds = c["kinds"]
    n = len(kinds)
    if n < 2:
        kinds = kinds + ["radar" if kinds[0] == "optical" else "optical"]
        n = 2
    perm = [p for p in c["perm"] if p < n]

    def builder(order):
        def b(sensors, truth, jd):
            obs = [_obs(k, sensors[i], truth, jd, sid=i + 1) for i, k in enumerate(kinds)]
            return [obs[i] for i in order]

        return b

    cc = dict(c)
    cc["kinds"] = kinds
    base = _posterior(cc, builder(list(range(n))))
    other = _posterior(cc, builder(perm))
    if perm != list(range(n)):
        rec.nontrivial([tuple(kinds), tuple(perm), c["alpha"], c["resample"], round(c["az"], 2), c.get("pre_mode", 0)])
    rec.label(f"earlier_update:{('none', 'random_layout', 'same_dim_other_layout', 'same_dim_other_layout')[c.get('pre_mode', 0)]}")
    _compare("permutation", base, other, rec, f"reordering observations {kinds} by {perm}")
