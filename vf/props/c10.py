"""C10 - truth trajectories depend only on dynamics and initial states."""

from __future__ import annotations

from datetime import timedelta

import numpy as np
from hypothesis import strategies as st

from vf import raydouble
from vf import scenario_kit as kit  # installs the Ray double before resonaate is imported
from vf.runner import Prop, Violation
from vf.strategies.instants import eop_instants, iso, parse

PROP = Prop(
    "C10",
    rule=(
        "Hypothesis: a base scenario (truth dynamics two-body or perturbed, integrator, 2-4 targets, ground and space sensors, "
        "optional unplanned/planned impulses and finite burns on the truth) and 3 variants that differ only in things that must not "
        "matter: estimation off, filter tuning, reward metrics, decision policy, sensor parameters, noise seed/magnitude, initial "
        "estimate error, output cadence, the run split into several calls, other agents added/removed, job completion order. "
        "Non-trivial = variant differing from the base in >= 2 categories incl. at least one of {schedule, split, agent set}; "
        "distinct by (base hash, variant categories). Clause real_ray_fidelity additionally runs one drawn scenario on the REAL Ray "
        "runtime in a subprocess and requires bit-identical truth rows and equal table sizes versus the in-process double "
        "(skipped if a Ray runtime cannot start)."
    ),
    assumptions=[
        "bit-identical comparison (float64 bytes) of every common agent's truth state at every common epoch, in memory and in the "
        "truth_ephemerides table",
        "runs in which the UKF covariance loses positive definiteness are skipped (filter robustness is not C10's subject)",
    ],
)
kit.install_keyed_noise()

SITE = (5.0, -40.0)


@st.composite
def _cases(draw):
    t0 = draw(eop_instants(margin_days=3))
    dt = draw(st.sampled_from([30, 60, 120, 225]))
    n = draw(st.integers(3, 6))
    model = draw(st.sampled_from(["two_body", "special_perturbations"]))
    nt = draw(st.integers(2, 4))
    targets = [{"dlat": draw(st.floats(-5, 5)), "dlon": draw(st.floats(-5, 5)), "head": draw(st.floats(0, 360)), "r": draw(st.sampled_from([9000.0, 20000.0, 26560.0]))}
               for _ in range(nt)]
    events = []
    for j in range(nt):
        ek = draw(st.sampled_from(["none", "none", "impulse", "burn"]))
        if ek == "impulse":
            events.append({"kind": "impulse", "tgt": j, "tau": draw(st.integers(1, n * dt - 1)), "dv": draw(st.sampled_from([1e-3, 0.05])), "planned": draw(st.booleans())})
        elif ek == "burn":
            a = draw(st.integers(1, n * dt - 10))
            events.append({"kind": "burn", "tgt": j, "tau": a, "tau_end": draw(st.integers(a + 1, n * dt)), "acc": 1e-6, "planned": draw(st.booleans())})
    # agents that join mid-run (target_addition / space-based sensor_addition events)
    adds = []
    for j in range(draw(st.sampled_from([0, 1, 2, 2, 3]))):
        adds.append({"kind": draw(st.sampled_from(["target", "target", "sensor"])), "tau": draw(st.integers(1, (n - 1) * dt)),
                     "head": draw(st.floats(0, 360)), "r": draw(st.sampled_from([8500.0, 12000.0, 26560.0])), "dlat": draw(st.floats(-5, 5))})
    # one of the targets may leave the scenario mid-run by an agent_removal event (its own maneuvers, if any, come earlier)
    removal = None
    if nt >= 2 and draw(st.booleans()):
        removal = {"tgt": draw(st.integers(0, nt - 1)), "tau": draw(st.integers(1, (n - 1) * dt))}
        events = [e for e in events if not (e["tgt"] == removal["tgt"] and max(e["tau"], e.get("tau_end", 0)) >= removal["tau"] - dt)]
    pool = ["truth_only", "filter", "filter_model", "reward", "decision", "sensor", "noise", "output", "split", "agents", "schedule"] + (["adds"] if adds else []) + (["no_removal"] if removal else [])
    variants = []
    for _ in range(3):
        cats = draw(st.lists(st.sampled_from(pool), min_size=1, max_size=4, unique=True))
        variants.append({"cats": sorted(cats), "split": draw(st.lists(st.integers(1, n - 1), min_size=1, max_size=2, unique=True)),
                         "output_mult": draw(st.sampled_from([2, 3, 1.5, 2.5])), "sched": draw(st.lists(st.integers(0, 11), min_size=3, max_size=8)),
                         "salt": draw(st.integers(1, 10**6)),
                         # a run call may ask for a time that is not on the step grid: it advances the whole steps that fit
                         "split_off": draw(st.lists(st.sampled_from([0.0, 0.0, 0.25, 0.5, 0.9]), min_size=2, max_size=2)),
                         "drop_add": draw(st.integers(0, 2)), "remove": draw(st.integers(0, nt - 1)), "policy": draw(st.sampled_from(["MyopicNaiveGreedyDecision", "RandomDecision"]))})
    return {"start": iso(t0), "dt": dt, "n": n, "model": model, "filter_model": draw(st.sampled_from(["two_body", "special_perturbations"])), "adds": adds, "srp": draw(st.booleans()), "removal": removal, "integrator": draw(st.sampled_from(["RK45", "DOP853"])), "targets": targets,
            "events": events, "variants": variants}


def _config(c, v=None):
    t0 = parse(c["start"])
    cats = set(v["cats"]) if v else set()
    dt, n = c["dt"], c["n"]
    tgts = []
    for j, t in enumerate(c["targets"]):
        tgts.append(kit.eci_target(13001 + j, kit.circular_state_over(SITE[0], SITE[1], t0, t["r"], heading_deg=t["head"], offset_deg=(t["dlat"], t["dlon"])),
                                   mass=300.0 + 400.0 * j, visual_cross_section=4.0 + 9.0 * ((j * 7) % 3), reflectivity=0.15 + 0.1 * j))
    sensor_over = {"slew_rate": 1.0, "field_of_view": {"fov_shape": "conic", "cone_angle": 30.0}} if "sensor" in cats else {}
    cov = [[1e-6, 0, 0, 0], [0, 1e-6, 0, 0], [0, 0, 1.0, 0], [0, 0, 0, 1e-6]] if "sensor" in cats else [[1e-7, 0, 0, 0], [0, 1e-7, 0, 0], [0, 0, 0.01, 0], [0, 0, 0, 1e-7]]
    sens = [kit.ground_sensor(23001, SITE[0], SITE[1], covariance=cov, **sensor_over),
            kit.space_sensor(23002, kit.circular_state_over(SITE[0], SITE[1], t0, 8000.0, heading_deg=10.0, offset_deg=(2.0, 2.0)), kind="adv_radar", covariance=cov, **sensor_over)]
    evs = []
    for e in c["events"]:
        tid = 13001 + e["tgt"]
        when = lambda s: (t0 + timedelta(seconds=s)).strftime("%Y-%m-%dT%H:%M:%S.000Z")  # noqa: E731
        if e["kind"] == "impulse":
            evs.append({"scope": "agent_propagation", "scope_instance_id": tid, "event_type": "impulse", "start_time": when(e["tau"]),
                        "thrust_vector": [0.0, e["dv"], 0.0], "thrust_frame": "ntw", "planned": e["planned"]})
        else:
            evs.append({"scope": "agent_propagation", "scope_instance_id": tid, "event_type": "finite_burn", "start_time": when(e["tau"]),
                        "end_time": when(e["tau_end"]), "acc_vector": [0.0, e["acc"], 0.0], "thrust_frame": "ntw", "planned": e["planned"]})
    rm = c.get("removal")
    if rm and "no_removal" not in cats:
        evs.append({"scope": "scenario_step", "scope_instance_id": 0, "start_time": (t0 + timedelta(seconds=rm["tau"])).strftime("%Y-%m-%dT%H:%M:%S.000Z"),
                    "event_type": "agent_removal", "tasking_engine_id": 1, "agent_id": 13001 + rm["tgt"], "agent_type": "target"})
    adds = list(enumerate(c.get("adds", [])))
    if "adds" in cats and adds:
        del adds[v.get("drop_add", 0) % len(adds)]
    for j, a in adds:
        st_a = kit.circular_state_over(SITE[0], SITE[1], t0, a["r"], heading_deg=a["head"], offset_deg=(a["dlat"], -2.0 + j))
        when_a = (t0 + timedelta(seconds=a["tau"])).strftime("%Y-%m-%dT%H:%M:%S.000Z")
        if a["kind"] == "target":
            evs.append({"scope": "scenario_step", "scope_instance_id": 0, "start_time": when_a, "event_type": "target_addition",
                        "tasking_engine_id": 1, "target_agent": kit.eci_target(14001 + j, st_a)})
        else:
            evs.append({"scope": "scenario_step", "scope_instance_id": 0, "start_time": when_a, "event_type": "sensor_addition",
                        "tasking_engine_id": 1, "sensor_agent": kit.space_sensor(24001 + j, st_a, kind="adv_radar", covariance=cov, **sensor_over)})
    if "agents" in cats:
        drop = 13001 + v["remove"]
        tgts = [t for t in tgts if t["id"] != drop]
        evs = [e for e in evs if e["scope_instance_id"] != drop and e.get("agent_id") != drop]
        tgts.append(kit.eci_target(13099, kit.circular_state_over(SITE[0], SITE[1], t0, 15000.0, heading_deg=200.0, offset_deg=(-1.0, 3.0))))
    metrics = ("ShannonInformation", "TimeSinceObservation") if "reward" in cats else ("TimeSinceObservation",)
    eng = kit.engine(1, sens, tgts, decision=v["policy"] if "decision" in cats else "MunkresDecision", metrics=metrics,
                     decision_extra={"seed": 7} if ("decision" in cats and v["policy"] == "RandomDecision") else None)
    noise = {"init_position_std_km": 5.0, "init_velocity_std_km_p_sec": 1e-3, "random_seed": 99} if "noise" in cats else None
    seq = {"alpha": 0.5, "resample": True} if "filter" in cats else {"alpha": 0.5}
    fm = c.get("filter_model", "two_body")
    if "filter_model" in cats:
        fm = "special_perturbations" if fm == "two_body" else "two_body"
    return kit.scenario_config(t0, t0 + timedelta(seconds=(n + 1) * dt), dt, [eng], events=evs, model=c["model"], filter_model=fm,
                               integrator=c["integrator"], truth_only="truth_only" in cats, noise=noise, seq_filter=seq,
                               output_dt=int(dt * v["output_mult"]) if "output" in cats else dt,
                               geopotential={"model": "egm96.txt", "degree": 4, "order": 4},
                               # (solar radiation pressure makes the truth dynamics agent specific: area-to-mass ratio and reflectivity)
                               perturbations={"third_bodies": ["sun", "moon"], "solar_radiation_pressure": bool(c.get("srp", False))})


def _run(c, v=None):
    from resonaate.physics.time.stardate import datetimeToJulianDate

    cats = set(v["cats"]) if v else set()
    t0 = parse(c["start"])
    dt, n = c["dt"], c["n"]
    if "schedule" in cats:
        sched, i = v["sched"], {"k": 0}

        def pick(m, refs):
            i["k"] += 1
            return sched[i["k"] % len(sched)] % m

        raydouble.set_scheduler(pick)
    kit.install_keyed_noise(salt=v["salt"] if "noise" in cats else 0)
    try:
        sc = kit.build(_config(c, v))
        mem = {}
        orig = sc.stepForward

        def stepped():
            orig()
            k = int(round(float(sc.clock.time) / dt))
            for aid, ag in list(sc.target_agents.items()) + list(sc.sensor_agents.items()):
                mem[(aid, k)] = np.asarray(ag.eci_state, dtype=np.float64).tobytes()

        sc.stepForward = stepped
        marks = sorted(set(v["split"])) + [n] if "split" in cats else [n]
        offs = [int(f * dt) for f in v.get("split_off", [0.0, 0.0])] if "split" in cats else []
        for mi, m in enumerate(marks):
            if m * dt > float(sc.clock.time):
                extra = offs[mi] if mi < len(marks) - 1 and mi < len(offs) else 0
                sc.propagateTo(datetimeToJulianDate(t0 + timedelta(seconds=m * dt + extra)))
        rows = kit.raw_sql("select agent_id, julian_date, pos_x_km, pos_y_km, pos_z_km, vel_x_km_p_sec, vel_y_km_p_sec, vel_z_km_p_sec from truth_ephemerides")
        jd0 = float(datetimeToJulianDate(t0))
        db = {}
        for r in rows:
            k = int(round((r[1] - jd0) * 86400.0 / dt))
            db[(r[0], k)] = np.asarray(r[2:], dtype=np.float64).tobytes()
        return mem, db
    finally:
        raydouble.set_scheduler(None)
        kit.install_keyed_noise(salt=0)


@PROP.clause("variants", strategy=_cases, quick=64, thorough=1600, shards=16)
def variants(c, rec):
    """truth states of every common agent at every common epoch are bit-identical between a base scenario and variants that must not matter"""
    from vf.runner import Skip

    try:
        mem0, db0 = _run(c, None)
    except np.linalg.LinAlgError:
        raise Skip("UKF covariance not positive definite in the base run")
    if len(mem0) < c["n"] * (len(c["targets"]) + 2 - (1 if c.get("removal") else 0)):
        raise Violation("base_incomplete", f"base run recorded {len(mem0)} truth states")
    for (aid, k), b in mem0.items():
        if db0.get((aid, k)) != b:
            raise Violation("stored_vs_memory", f"base run: stored truth ephemeris of agent {aid} at step {k} differs from the state the simulation held")
    for v in c["variants"]:
        cats = v["cats"]
        try:
            mem1, db1 = _run(c, v)
        except np.linalg.LinAlgError:
            rec.label("variant_skipped_filter_failure")
            continue
        if len(cats) >= 2 and set(cats) & {"schedule", "split", "agents", "adds", "no_removal"}:
            rec.nontrivial([hash(str(c["targets"]) + c["start"]) % 10**6, tuple(cats)])
        for cat in cats:
            rec.label("cat:" + cat)
        if "split" in cats and any(int(f * c["dt"]) for f in v.get("split_off", [])[:len(set(v["split"]))]):
            rec.label("split_call_off_the_step_grid")
        rec.label(f"midrun_additions:{len(c.get('adds', []))}")
        rec.label("srp_on" if c.get("srp") else "srp_off")
        rec.label("base_removes_a_target" if c.get("removal") else "no_removal_event")
        common = set(mem0) & set(mem1)
        if len(common) < c["n"] * 2:
            raise Violation("variant_incomplete", f"variant {cats}: only {len(common)} common (agent, step) truth states")
        for key in sorted(common):
            if mem0[key] != mem1[key]:
                a = np.frombuffer(mem0[key]); b = np.frombuffer(mem1[key])
                raise Violation("truth_differs", f"truth state of agent {key[0]} after step {key[1]} differs between the base scenario and a variant changing only {cats}: |dr| = {np.linalg.norm(a[:3] - b[:3]):.3e} km, |dv| = {np.linalg.norm(a[3:] - b[3:]):.3e} km/s (model {c['model']}, events {c['events']})")
        for key in sorted(set(db0) & set(db1)):
            if db0[key] != db1[key]:
                raise Violation("stored_truth_differs", f"stored truth ephemeris of agent {key[0]} at step {key[1]} differs between base and variant {cats}")
        for key, b in db1.items():
            if key in mem1 and mem1[key] != b:
                raise Violation("stored_vs_memory", f"variant {cats}: stored truth ephemeris of agent {key[0]} at step {key[1]} differs from memory")


# ------------------------------------------------------------------------------------------------
def _fid_cases():
    return st.builds(lambda t, dt, n, model: {"start": iso(t), "dt": dt, "n": n, "model": model}, eop_instants(margin_days=3),
                     st.sampled_from([30, 60]), st.integers(2, 4), st.sampled_from(["two_body", "special_perturbations"]))


@PROP.clause("real_ray_fidelity", strategy=_fid_cases, quick=1, thorough=12, shards=1, thorough_shards=4, shrink=False)
def real_ray_fidelity(c, rec):
    """the same scenario on REAL Ray (separate process, no double) and on the in-process double: truth rows bit-identical, same table sizes"""
    import json
    import os
    import subprocess
    import sys
    import tempfile

    t0 = parse(c["start"])
    dt, n = c["dt"], c["n"]
    base = {"start": c["start"], "dt": dt, "n": n, "model": c["model"], "integrator": "RK45",
            "targets": [{"dlat": 1.0, "dlon": -2.0, "head": 30.0, "r": 20000.0}, {"dlat": -3.0, "dlon": 2.0, "head": 200.0, "r": 9000.0}],
            "events": [{"kind": "impulse", "tgt": 0, "tau": dt + 1, "dv": 0.05, "planned": False}], "variants": []}
    cfg = _config(base)
    tmp = tempfile.mkdtemp(prefix="vf-fid-")
    try:
        cin, cout = os.path.join(tmp, "cfg.json"), os.path.join(tmp, "out.json")
        json.dump({"config": cfg, "start": t0.isoformat(), "seconds": n * dt}, open(cin, "w"))
        env = dict(os.environ, PYTHONPATH=os.environ.get("PYTHONPATH", ""))
        r = subprocess.run([sys.executable, "-W", "ignore", "-m", "vf.realray_run", cin, cout], capture_output=True, text=True, env=env, timeout=900)
        if r.returncode != 0 or not os.path.exists(cout):
            from vf.runner import HarnessError

            raise HarnessError(f"real-Ray run failed: {r.stderr[-800:]}")
        real = json.load(open(cout))
        if "unavailable" in real:
            from vf.runner import Skip

            raise Skip("real Ray runtime could not start here: " + real["unavailable"])
    finally:
        import shutil

        shutil.rmtree(tmp, ignore_errors=True)
    mem, db = _run(base, None)
    counts = {t: kit.raw_sql(f"select count(*) from {t}")[0][0] for t in ("epochs", "agents", "truth_ephemerides", "estimate_ephemerides", "tasks")}
    rec.nontrivial([c["start"], dt, n, c["model"]])
    if counts != real["counts"]:
        raise Violation("fidelity_counts", f"table sizes differ between real Ray {real['counts']} and the double {counts}")
    rows = kit.raw_sql("select agent_id, julian_date, pos_x_km, pos_y_km, pos_z_km, vel_x_km_p_sec, vel_y_km_p_sec, vel_z_km_p_sec from truth_ephemerides order by agent_id, julian_date")
    mine = [[r_[0], repr(r_[1])] + [float(x).hex() for x in r_[2:]] for r_ in rows]
    if mine != real["truth"]:
        bad = next((a, b) for a, b in zip(mine, real["truth"]) if a != b)
        raise Violation("fidelity_truth", f"truth ephemerides differ between real Ray and the in-process double, first difference: double {bad[0]} vs real {bad[1]}")
