"""C12 - orbital element sets, anomalies and state configurations convert consistently."""

from __future__ import annotations

import math

import numpy as np
from hypothesis import strategies as st

from vf.oracles import kepler
from vf.runner import Prop, Skip, Violation
from vf.strategies import orbits as so

PI, TWOPI = math.pi, 2 * math.pi

PROP = Prop(
    "C12",
    rule=(
        "Hypothesis element sets a in [6600,50000] km, e in [0,0.9) with mixture on {0,1e-8,9.9e-8,1e-7,1.1e-7}, "
        "i in [0,pi] with mixture on {0, threshold*(0.99,1,1.01), pi-...}, all node/perigee/anomaly angles incl. exact "
        "quadrant values; Cartesian states come from the independent oracle (vf/oracles/kepler.coe2rv). "
        "Non-trivial = e or min(i,pi-i) within a factor 10 of its threshold or exactly 0, or i > pi/2; distinct by "
        "orbit class x rounded elements."
    ),
    assumptions=[
        "documented singular conventions: below the thresholds (e<1e-7, i<1e-7 deg) the undefined angles are set to zero, "
        "which loses at most O(a*e) / O(a*i) in the reproduced state; tolerances include exactly that term",
        "equinoctial conversions are called with retro=True iff the orbit is within 0.1 rad of i=pi (documented requirement for i=pi)",
    ],
)
PROP.selftest(kepler.selftest)


@PROP.known("K1-exact-2pi")
def known_exact_2pi(clause, case, viol):
    """A value documented in [0, 2pi) that comes back as exactly 2pi (and nothing else out of range)."""
    return viol.label == "range_exact_2pi"


def _rng(name, v, rec, ctx=""):
    """Range check [0, 2pi); an exact 2pi is the listed known finding K1 (excluded, counted, search continues)."""
    if v == TWOPI:
        if rec.excluded("K1-exact-2pi"):
            return 0.0
        raise Violation("range_exact_2pi", f"{name} = {v!r} is exactly 2pi, outside the documented [0, 2pi) {ctx}")
    if not (0.0 <= v < TWOPI):
        raise Violation("range", f"{name} = {v!r} outside [0, 2pi) {ctx}")
    return v


def _key(c):
    return [so.orbit_class(c["e"], c["i"]), round(c["a"], -2), round(c["e"], 3), round(c["i"], 2),
            round(c["raan"], 1), round(c["argp"], 1), round(c["nu"], 1)]


def _mark(c, rec):
    if so.near_threshold(c["e"], c["i"]) or c["i"] > PI / 2:
        rec.nontrivial(_key(c))
    rec.label(so.orbit_class(c["e"], c["i"]))


def _tols(c):
    """Position / velocity tolerance including the documented loss below the singularity thresholds."""
    a, e, i = c["a"], c["e"], c["i"]
    # at the threshold itself either classification is legitimate (e and i are re-derived through sqrt/atan/acos,
    # whose rounding can land on either side), so the documented sub-threshold loss is allowed up to 1 ppm above it
    e_sub = e if e < so.ECC_LIMIT * (1 + 1e-6) else 0.0
    k = min(i, PI - i)
    i_sub = k if k < so.INC_LIMIT * (1 + 1e-6) else 0.0
    v = math.sqrt(kepler.MU / (a * (1 - e))) * 2
    return 1e-6 + 4 * a * (1 + e) * (e_sub + i_sub), 1e-9 + 4 * v * (e_sub + i_sub)


def _state(c):
    return kepler.coe2rv(c["a"], c["e"], c["i"], c["raan"], c["argp"], c["nu"])


def _cmp_state(label, got, ref, c, rec, what, extra_angle=0.0):
    tp, tv = _tols(c)
    tp += extra_angle * c["a"] * (1 + c["e"])
    tv += extra_angle * math.sqrt(kepler.MU / (c["a"] * (1 - c["e"]))) * 2
    dp = float(np.linalg.norm(np.asarray(got[:3]) - ref[:3]))
    dv = float(np.linalg.norm(np.asarray(got[3:]) - ref[3:]))
    if so.orbit_class(c["e"], c["i"]) == "eccentric-inclined":
        rec.err(label + "_pos_km", dp)
        rec.err(label + "_vel_kms", dv)
    if not (dp <= tp and dv <= tv):
        raise Violation(label, f"{what}: |dr|={dp:.3e} km (tol {tp:.1e}), |dv|={dv:.3e} km/s (tol {tv:.1e}) for a={c['a']!r}, e={c['e']!r}, "
                               f"i={c['i']!r}, raan={c['raan']!r}, argp={c['argp']!r}, nu={c['nu']!r} [{so.orbit_class(c['e'], c['i'])}]")


def _in_0_2pi(x):
    return 0.0 <= x < TWOPI


# ------------------------------------------------------------------------------------------------
@PROP.clause("coe_roundtrip", strategy=lambda: so.elements(), quick=5000, thorough=250000, shards=4)
def coe_roundtrip(c, rec):
    """coe2eci(eci2coe(state)) == state; element ranges; singular conventions; coe2eci vs independent formulas"""
    from resonaate.physics.orbits.conversions import coe2eci, eci2coe

    _mark(c, rec)
    s = _state(c)
    sma, ecc, inc, raan, argp, anom = eci2coe(s)
    raan, argp, anom = (_rng("eci2coe " + n, v, rec, f"for {c}") for n, v in (("raan", raan), ("argp", argp), ("anomaly", anom)))
    if not (0.0 <= inc <= PI) or not (0.0 <= ecc < 1.0):
        raise Violation("range", f"eci2coe returned inc={inc!r}, ecc={ecc!r}")
    if abs(sma - c["a"]) > 1e-9 * c["a"] * (1 + 1 / (1 - c["e"])):
        raise Violation("sma", f"eci2coe sma {sma!r} != {c['a']!r}")
    if abs(ecc - c["e"]) > 1e-10 / (1 - c["e"]):
        raise Violation("ecc", f"eci2coe ecc {ecc!r} != {c['e']!r}")
    # singular conventions (documented in ClassicalElements)
    if not (so.INC_LIMIT <= inc <= PI - so.INC_LIMIT) and raan != 0.0:
        raise Violation("convention", f"equatorial orbit (inc={inc!r}) but raan={raan!r} != 0")
    if ecc < so.ECC_LIMIT and argp != 0.0:
        raise Violation("convention", f"circular orbit (ecc={ecc!r}) but argp={argp!r} != 0")
    back = coe2eci(sma, ecc, inc, raan, argp, anom)
    # eci2coe follows the documented (Vallado) arccos formulas; arccos cannot resolve an angle theta better than
    # eps/|sin theta| (capped at sqrt(2 eps) = 2.1e-8 rad at 0 and pi).  When one of the angles it returned is
    # within 1e-4 rad of 0 or pi that inherent loss (<= 4 angles x 3e-8 rad x r) is allowed, otherwise it is < 1e-11 rad.
    near = any(min(abs(x) % PI, PI - abs(x) % PI) < 1e-4 for x in (inc, raan, argp, anom))
    extra = 4 * 3e-8 if near else 0.0
    rec.label("acos_limited" if near else "acos_ok")
    _cmp_state("coe_roundtrip", back, s, c, rec, "coe2eci(eci2coe(state)) differs from state", extra_angle=extra)
    # coe2eci against the oracle's independent element->state routine
    direct = coe2eci(c["a"], c["e"], c["i"], c["raan"], c["argp"], c["nu"])
    dp = float(np.linalg.norm(direct[:3] - s[:3]))
    dv = float(np.linalg.norm(direct[3:] - s[3:]))
    rec.err("coe2eci_vs_oracle_km", dp)
    if dp > 1e-7 or dv > 1e-10:
        raise Violation("coe2eci_vs_reference", f"coe2eci differs from direct rotation formulas by {dp:.3e} km, {dv:.3e} km/s for {c}")
    # well-conditioned region: the elements themselves come back
    if c["e"] > 1e-3 and 1e-3 < c["i"] < PI - 1e-3:
        for name, got, want in (("raan", raan, c["raan"]), ("argp", argp, c["argp"]), ("nu", anom, c["nu"])):
            d = abs((got - want + PI) % TWOPI - PI)
            if d > 1e-7 / c["e"]:
                raise Violation("element_" + name, f"eci2coe {name}={got!r}, expected {want!r} (mod 2pi) for {c}")
        if abs(inc - c["i"]) > 1e-9:
            raise Violation("element_inc", f"eci2coe inc={inc!r}, expected {c['i']!r}")


def _retro_for(i):
    return i > PI - 0.1


def _eqe_cases():
    return st.tuples(so.elements(), st.booleans()).map(lambda t: {**t[0], "retro_pick": t[1]})


@PROP.clause("eqe_roundtrip", strategy=_eqe_cases, quick=5000, thorough=250000, shards=4)
def eqe_roundtrip(c, rec):
    """eqe2eci(eci2eqe(state)) == state; coe<->eqe agree with both; eqe2eci(coe2eqe(c)) == coe2eci(c)"""
    from resonaate.physics.orbits.conversions import coe2eci, coe2eqe, eci2eqe, eqe2coe, eqe2eci

    _mark(c, rec)
    i = c["i"]
    if i >= PI - 0.1:
        retro = True
    elif i <= 0.1:
        retro = False
    else:
        retro = bool(c["retro_pick"])
    rec.label("retro" if retro else "direct")
    s = _state(c)
    eqe = eci2eqe(s, retro=retro)
    _rng("eci2eqe mean longitude", eqe[5], rec)
    back = eqe2eci(*eqe, retro=retro)
    _cmp_state("eqe_roundtrip", back, s, c, rec, f"eqe2eci(eci2eqe(state, retro={retro})) differs from state")
    # classical -> equinoctial -> Cartesian agrees with classical -> Cartesian (elements given explicitly)
    eqe2 = coe2eqe(c["a"], c["e"], c["i"], c["raan"], c["argp"], c["nu"], retro=retro)
    via = eqe2eci(*eqe2, retro=retro)
    _cmp_state("coe2eqe_path", via, s, c, rec, f"eqe2eci(coe2eqe(c, retro={retro})) differs from the state of c")
    # equinoctial -> classical -> Cartesian
    coe = eqe2coe(*eqe, retro=retro)
    for name, v in (("raan", coe[3]), ("argp", coe[4]), ("anomaly", coe[5])):
        _rng("eqe2coe " + name, v, rec)
    # eqe2coe derives e and i through sqrt/atan, so sub-threshold classification can flip by rounding:
    # compare through states with the class-aware tolerance of the *returned* elements as well
    c2 = dict(c)
    c2["e"], c2["i"] = min(c["e"], float(coe[1])), c["i"]
    via2 = coe2eci(*coe)
    tp, tv = _tols(c)
    tp2, tv2 = _tols({**c, "e": float(coe[1]), "i": float(coe[2])})
    dp = float(np.linalg.norm(via2[:3] - s[:3]))
    dv = float(np.linalg.norm(via2[3:] - s[3:]))
    if dp > max(tp, tp2) or dv > max(tv, tv2):
        raise Violation("eqe2coe_path", f"coe2eci(eqe2coe(eci2eqe(state))) differs by {dp:.3e} km, {dv:.3e} km/s (retro={retro}) for {c}")
    # the element classes wrap the same conversions and must give the same orbit, whichever constructor is used
    from resonaate.physics.orbits.elements import ClassicalElements, EquinoctialElements

    for label, obj in (("EquinoctialElements.fromECI", EquinoctialElements.fromECI(s, retro=retro)),
                       ("EquinoctialElements.fromCOE", EquinoctialElements.fromCOE(c["a"], c["e"], c["i"], c["raan"], c["argp"], c["nu"], retro=retro)),
                       ("EquinoctialElements(...)", EquinoctialElements(*eqe, retro=retro)),
                       ("ClassicalElements.fromECI", ClassicalElements.fromECI(s)),
                       ("ClassicalElements.fromEQE", ClassicalElements.fromEQE(*eqe, retro=retro))):
        got = np.asarray(obj.toECI(), dtype=float)
        dp = float(np.linalg.norm(got[:3] - s[:3]))
        dv = float(np.linalg.norm(got[3:] - s[3:]))
        ep, ev = 0.0, 0.0
        if label == "ClassicalElements.fromECI":
            # same arccos resolution limit as in coe_roundtrip (the class wraps eci2coe)
            if any(min(abs(x) % PI, PI - abs(x) % PI) < 1e-4 for x in (obj.inc, obj.raan, obj.argp, obj.true_anomaly)):
                ep = 4 * 3e-8 * c["a"] * (1 + c["e"])
                ev = 4 * 3e-8 * math.sqrt(kepler.MU / (c["a"] * (1 - c["e"]))) * 2
        if dp > max(tp, tp2) + ep or dv > max(tv, tv2) + ev:
            raise Violation("element_class", f"{label}(retro={retro}).toECI() differs from the orbit's state by {dp:.3e} km, {dv:.3e} km/s for {c}")


# ------------------------------------------------------------------------------------------------
def _anom_cases():
    ang = st.one_of(st.floats(-4 * PI, 4 * PI), st.sampled_from([0.0, PI, -PI, TWOPI, -TWOPI, PI / 2, 3 * PI, 1e-12, PI - 1e-12, PI + 1e-12]))
    ecc = st.one_of(st.floats(0.0, 0.9, exclude_max=True), st.sampled_from([0.0, 1e-8, 9.9e-8, 1e-7, 1.1e-7, 0.5, 0.899]))
    return st.builds(lambda x, e, w, o, r: {"x": x, "e": e, "argp": w, "raan": o, "retro": r}, ang, ecc, so.angles(), so.angles(), st.booleans())


def _angdiff(a, b):
    return abs((a - b + PI) % TWOPI - PI)


@PROP.clause("anomalies", strategy=_anom_cases, quick=6000, thorough=300000, shards=2)
def anomalies(c, rec):
    """anomaly maps mutually inverse, satisfy Kepler's equation and the half-angle relation, outputs in [0,2pi)"""
    from resonaate.physics.orbits import anomaly as an

    x, e = c["x"], c["e"]
    sub = e < so.ECC_LIMIT * (1 + 1e-6)  # at the threshold itself sqrt(h^2+k^2) may round to either side
    slack = 2.1 * e if sub else 0.0  # documented: below the circular threshold all anomalies are identified
    if e in (0.0, 1e-8, 9.9e-8, 1e-7, 1.1e-7) or abs(x) > TWOPI or x in (0.0, PI, -PI, TWOPI, -TWOPI):
        rec.nontrivial([round(x, 3), e])
    xm = x % TWOPI
    big_e = an.trueAnom2EccAnom(x, e)
    m_from_e = an.eccAnom2MeanAnom(x, e)
    m_from_nu = an.trueAnom2MeanAnom(x, e)
    nu_from_e = an.eccAnom2TrueAnom(x, e)
    e_from_m = an.meanAnom2EccAnom(x, e)
    nu_from_m = an.meanAnom2TrueAnom(x, e)
    for name, v in (("trueAnom2EccAnom", big_e), ("eccAnom2MeanAnom", m_from_e), ("trueAnom2MeanAnom", m_from_nu),
                    ("eccAnom2TrueAnom", nu_from_e), ("meanAnom2EccAnom", e_from_m), ("meanAnom2TrueAnom", nu_from_m)):
        _rng(f"{name}({x!r}, {e!r})", v, rec)
    tol = 1e-11 / (1 - e) ** 2 + slack
    # Kepler's equation
    if _angdiff(m_from_e, xm - e * math.sin(xm)) > tol:
        raise Violation("kepler_equation", f"eccAnom2MeanAnom({x!r},{e!r})={m_from_e!r} != E - e sin E")
    if _angdiff(e_from_m - e * math.sin(e_from_m), xm) > tol:
        raise Violation("kepler_solution", f"meanAnom2EccAnom({x!r},{e!r})={e_from_m!r} does not solve M = E - e sin E")
    # half-angle relation between E and nu
    ref_nu = kepler.nu_from_E(xm, e) % TWOPI
    if _angdiff(nu_from_e, ref_nu) > tol:
        raise Violation("ecc2true", f"eccAnom2TrueAnom({x!r},{e!r})={nu_from_e!r}, half-angle formula gives {ref_nu!r}")
    ref_e = kepler.E_from_nu(xm, e) % TWOPI
    if _angdiff(big_e, ref_e) > tol:
        raise Violation("true2ecc", f"trueAnom2EccAnom({x!r},{e!r})={big_e!r}, half-angle formula gives {ref_e!r}")
    # inverses
    for name, f, g, y in (("nu->E->nu", an.eccAnom2TrueAnom, an.trueAnom2EccAnom, big_e),
                          ("E->M->E", an.meanAnom2EccAnom, an.eccAnom2MeanAnom, m_from_e),
                          ("nu->M->nu", an.meanAnom2TrueAnom, an.trueAnom2MeanAnom, m_from_nu),
                          ("M->nu->M", an.trueAnom2MeanAnom, an.meanAnom2TrueAnom, nu_from_m),
                          ("M->E->M", an.eccAnom2MeanAnom, an.meanAnom2EccAnom, e_from_m)):
        back = f(y, e)
        if _angdiff(back, xm) > 10 * tol:
            raise Violation("inverse", f"{name}: {x!r} (e={e!r}) came back as {back!r}")
    # composition consistency
    if _angdiff(m_from_nu, an.eccAnom2MeanAnom(big_e, e)) > 10 * tol:
        raise Violation("composition", f"trueAnom2MeanAnom != eccAnom2MeanAnom o trueAnom2EccAnom at {x!r}, e={e!r}")
    # equinoctial Kepler equation with h, k built from e and a perigee longitude
    w = c["argp"]
    h, k = e * math.sin(w), e * math.cos(w)
    lam = an.eccLong2MeanLong(x, h, k)
    big_f = an.meanLong2EccLong(x, h, k)
    _rng("eccLong2MeanLong", lam, rec)
    _rng("meanLong2EccLong", big_f, rec)
    if _angdiff(lam, xm + h * math.cos(xm) - k * math.sin(xm)) > tol:
        raise Violation("kepler_equation_eqe", f"eccLong2MeanLong({x!r},{h!r},{k!r})={lam!r} != F + h cos F - k sin F")
    if _angdiff(big_f + h * math.cos(big_f) - k * math.sin(big_f), xm) > tol:
        raise Violation("kepler_solution_eqe", f"meanLong2EccLong({x!r},{h!r},{k!r})={big_f!r} does not solve the equinoctial Kepler equation")
    if _angdiff(an.meanLong2EccLong(lam, h, k), xm) > 10 * tol:
        raise Violation("inverse", f"F -> lambda -> F: {x!r} came back as {an.meanLong2EccLong(lam, h, k)!r}")
    # mean longitude <-> true anomaly with node / perigee offsets
    ii = -1 if c["retro"] else 1
    ml = an.trueAnom2MeanLong(x, e, c["raan"], w, retro=c["retro"])
    if _angdiff(ml, m_from_nu + w + ii * c["raan"]) > 10 * tol:
        raise Violation("mean_longitude", f"trueAnom2MeanLong != M + argp + I*raan at nu={x!r}")
    nu_back = an.meanLong2TrueAnom(ml, e, c["raan"], w, retro=c["retro"])
    if _angdiff(nu_back, xm) > 10 * tol:
        raise Violation("inverse", f"nu -> lambda -> nu: {x!r} came back as {nu_back!r} (e={e!r}, retro={c['retro']})")


# ------------------------------------------------------------------------------------------------
def _cfg_elements():
    return so.elements(e_cap=0.9, a_min=6600.0, a_max=50000.0)


@PROP.clause("config_equivalence", strategy=_cfg_elements, quick=3000, thorough=100000, shards=4)
def config_equivalence(c, rec):
    """ECI / COE (variant matching the orbit class) / EQE configurations of one orbit give the same toECI()"""
    from datetime import datetime

    from resonaate.scenario.config.state_config import COEStateConfig, ECIStateConfig, EQEStateConfig

    a, e, inc = c["a"], c["e"], c["i"]
    eccentric = e >= so.ECC_LIMIT
    inclined = so.INC_LIMIT <= inc <= PI - so.INC_LIMIT
    raan = c["raan"] if inclined else 0.0
    argp = c["argp"] if eccentric else 0.0
    nu = c["nu"]
    cc = {**c, "raan": raan, "argp": argp}
    _mark(cc, rec)
    s = kepler.coe2rv(a, e, inc, raan, argp, nu)
    if np.linalg.norm(s[:3]) <= so.RE + 1e-6:
        raise Skip("position inside the Earth (ECIStateConfig rejects it)")
    deg = 180.0 / PI
    when = datetime(2020, 1, 1)

    def d(x):
        v = (x * deg) % 360.0
        return 0.0 if v >= 360.0 else v

    eci = ECIStateConfig(type="eci", position=list(map(float, s[:3])), velocity=list(map(float, s[3:]))).toECI(when)
    if not np.array_equal(np.asarray(eci, dtype=float), s):
        raise Violation("eci_config", "ECIStateConfig.toECI does not return the configured state")
    kw = {"type": "coe", "semi_major_axis": a, "eccentricity": e, "inclination": min(180.0, inc * deg)}
    if eccentric and inclined:
        kw.update(true_anomaly=d(nu), right_ascension=d(raan), argument_periapsis=d(argp))
    elif eccentric:
        kw.update(true_anomaly=d(nu), true_longitude_periapsis=d(argp))
    elif inclined:
        kw.update(right_ascension=d(raan), argument_latitude=d(nu))
    else:
        kw.update(true_longitude=d(nu))
    coe_state = COEStateConfig(**kw).toECI(when)
    # degrees round trip costs ~1e-13 rad; thresholds may flip between config (by fields) and class (by value)
    tp, tv = _tols(cc)
    dp = float(np.linalg.norm(coe_state[:3] - s[:3]))
    dv = float(np.linalg.norm(coe_state[3:] - s[3:]))
    rec.err("coe_config_km", dp if eccentric and inclined else 0.0)
    if dp > tp + 1e-7 or dv > tv + 1e-10:
        raise Violation("coe_config", f"COEStateConfig({kw}).toECI differs from the orbit's state by {dp:.3e} km, {dv:.3e} km/s")
    # equinoctial description (Danielson definitions, computed here)
    retro = inc > PI - 0.1
    if 0.1 < inc <= PI - 0.1:
        retro = False
    ii = -1 if retro else 1
    big_e = kepler.E_from_nu(nu, e)
    m = big_e - e * math.sin(big_e)
    t = math.tan(inc / 2)
    if retro:
        if t == 0:
            raise Skip("tan(i/2)=0 with retro")
        t = 1 / t
    h, k = e * math.sin(argp + ii * raan), e * math.cos(argp + ii * raan)
    p, q = t * math.sin(raan), t * math.cos(raan)
    lam = (m + argp + ii * raan) % TWOPI
    eqe_state = EQEStateConfig(type="eqe", semi_major_axis=a, h=h, k=k, p=p, q=q, mean_longitude=d(lam), retrograde=retro).toECI(when)
    dp = float(np.linalg.norm(eqe_state[:3] - s[:3]))
    dv = float(np.linalg.norm(eqe_state[3:] - s[3:]))
    rec.err("eqe_config_km", dp if eccentric and inclined else 0.0)
    if dp > tp + 1e-6 or dv > tv + 1e-9:
        raise Violation("eqe_config", f"EQEStateConfig(h={h!r},k={k!r},p={p!r},q={q!r},lam={lam!r},retro={retro}).toECI differs from the orbit's state by {dp:.3e} km, {dv:.3e} km/s [{so.orbit_class(e, inc)}] elements {cc}")
