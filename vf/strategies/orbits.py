"""Bound-orbit element sets constructed (never rejected) with weight on the singular/threshold regions."""

from __future__ import annotations

import math

from hypothesis import strategies as st

RE = 6378.1363
PI = math.pi
TWOPI = 2 * math.pi
ECC_LIMIT = 1e-7
INC_LIMIT = 1e-7 * math.pi / 180.0


def angles():
    return st.one_of(
        st.floats(0.0, TWOPI, exclude_max=True, allow_nan=False),
        st.sampled_from([0.0, PI / 2, PI, 3 * PI / 2, 1e-9, TWOPI - 1e-9, PI - 1e-9, PI + 1e-9]),
    )


def inclinations():
    return st.one_of(
        st.floats(0.0, PI, allow_nan=False),
        st.floats(0.01, PI - 0.01),
        st.sampled_from([0.0, 5e-10, INC_LIMIT * 0.99, INC_LIMIT, INC_LIMIT * 1.01, 2e-9, 1e-6, PI / 2,
                         PI - 1e-6, PI - 2e-9, PI - INC_LIMIT * 1.01, PI - INC_LIMIT, PI - INC_LIMIT * 0.99, PI - 5e-10, PI]),
    )


def eccentricities(e_max: float):
    specials = [x for x in (0.0, 1e-8, 9.9e-8, 1e-7, 1.1e-7, 1e-6, 1e-3) if x <= e_max]
    return st.one_of(st.floats(0.0, e_max, allow_nan=False), st.sampled_from(specials))


@st.composite
def elements(draw, e_cap=0.9, min_perigee_alt=None, a_min=6600.0, a_max=50000.0):
    """(a, e, i, raan, argp, nu) in km / rad.  ``min_perigee_alt`` (km) bounds e by construction."""
    a = draw(st.one_of(st.floats(a_min, a_max), st.sampled_from([a_min, 7000.0, 26560.0, 42164.0, a_max])))
    e_max = e_cap
    if min_perigee_alt is not None:
        e_max = max(0.0, min(e_cap, 1.0 - (RE + min_perigee_alt) / a))
    e = draw(eccentricities(e_max))
    if e >= e_cap:
        e = math.nextafter(e_cap, 0.0)
    inc = draw(inclinations())
    return {"a": a, "e": e, "i": inc, "raan": draw(angles()), "argp": draw(angles()), "nu": draw(angles())}


def orbit_class(e: float, inc: float) -> str:
    ecc = e >= ECC_LIMIT
    incl = INC_LIMIT <= inc <= PI - INC_LIMIT
    return ("eccentric" if ecc else "circular") + "-" + ("inclined" if incl else ("equatorial" if inc < 1 else "retro-equatorial"))


def near_threshold(e: float, inc: float) -> bool:
    k = min(inc, PI - inc)
    return (ECC_LIMIT / 10 <= e <= ECC_LIMIT * 10) or (INC_LIMIT / 10 <= k <= INC_LIMIT * 10) or e == 0.0 or k == 0.0
