"""Whole-second UTC instants, dense around calendar boundaries and second-of-minute != 0."""

from __future__ import annotations

from datetime import date, datetime, timedelta
from functools import lru_cache

from hypothesis import strategies as st

ISO = "%Y-%m-%dT%H:%M:%S"


def iso(t: datetime) -> str:
    return t.isoformat(timespec="microseconds") if t.microsecond else t.strftime(ISO)


def parse(s: str) -> datetime:
    return datetime.fromisoformat(s)


@lru_cache(maxsize=1)
def eop_span() -> tuple[date, date]:
    """Span of the bundled Earth-orientation table, read from the loader (not hard-coded)."""
    from resonaate.physics.transforms.eops import getEarthOrientationParameters
    from resonaate.physics.transforms.eops.getter import _loadLoader

    getEarthOrientationParameters(date(2018, 1, 1))  # forces the load
    loader = _loadLoader()
    return loader.earliestEOPDate(), loader.latestEOPDate()


LEAP_SECOND_DATES = (date(2015, 7, 1), date(2017, 1, 1))  # first day with the new TAI-UTC


def _special_days(first: date, last: date) -> list[date]:
    out = []
    for y in range(first.year, last.year + 1):
        for m, d in ((1, 1), (12, 31), (2, 28), (3, 1), (6, 30), (7, 1)):
            out.append(date(y, m, d))
        if y % 4 == 0 and (y % 100 != 0 or y % 400 == 0):
            out.append(date(y, 2, 29))
        for m in range(1, 13):
            nxt = date(y + (m == 12), m % 12 + 1, 1)
            out.append(nxt - timedelta(days=1))
            out.append(date(y, m, 1))
    out += [first, last]
    return sorted({d for d in out if first <= d <= last})


def seconds_of_day():
    """second-of-day with weight on second != 0, :59, last minute of the day."""
    return st.one_of(
        st.integers(0, 86399),
        st.builds(lambda m, s: m * 60 + s, st.integers(0, 1439), st.sampled_from([1, 7, 13, 29, 30, 31, 58, 59])),
        st.integers(86399 - 120, 86399),
        st.integers(0, 120),
        st.builds(lambda h: h * 3600, st.integers(0, 23)),
    )


def instants(first: date, last: date):
    """Whole-second instants in [first 00:00:00, last 23:59:59]."""
    special = _special_days(first, last)
    ndays = (last - first).days
    days = st.one_of(
        st.integers(0, ndays).map(lambda k: first + timedelta(days=k)),
        st.sampled_from(special),
    )
    return st.builds(lambda d, s: datetime(d.year, d.month, d.day) + timedelta(seconds=s), days, seconds_of_day())


def eop_instants(margin_days: int = 0):
    lo, hi = eop_span()
    return instants(lo + timedelta(days=margin_days), hi - timedelta(days=margin_days))


def boundary_kind(t: datetime, window: float = 60.0) -> str | None:
    """Name of the calendar boundary within ``window`` seconds of ``t`` (or None)."""
    day0 = datetime(t.year, t.month, t.day)
    for b in (day0, day0 + timedelta(days=1)):
        if abs((t - b).total_seconds()) <= window:
            if b.month == 1 and b.day == 1:
                return "year"
            if b.day == 1 and b.month == 3 and (b - timedelta(days=1)).day == 29:
                return "leapday"
            if b.day == 1:
                return "month"
            return "day"
    if t.second != 0:
        return None
    return None
